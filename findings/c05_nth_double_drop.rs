//! Demonstration for the C05 finding (pre-fix): a panicking destructor inside `nth`/`nth_back`
//! leads to a second drop of the skipped elements from the iterator's own `Drop`.
//! Run as an integration test of the crate: copy to /repo/tests/ in a scratch worktree and `cargo test --test c05_nth_double_drop`.
use generic_array::{typenum::U5, GenericArray};
use std::panic::{catch_unwind, AssertUnwindSafe};
use std::sync::atomic::{AtomicUsize, Ordering::SeqCst};

static DROPS: [AtomicUsize; 5] = [AtomicUsize::new(0), AtomicUsize::new(0), AtomicUsize::new(0), AtomicUsize::new(0), AtomicUsize::new(0)];

struct E(usize, bool);
impl Drop for E {
    fn drop(&mut self) {
        let before = DROPS[self.0].fetch_add(1, SeqCst);
        if self.1 && before == 0 {
            panic!("destructor of element {} panics", self.0);
        }
    }
}

static LOCK: std::sync::Mutex<()> = std::sync::Mutex::new(());

fn run(back: bool) -> Vec<usize> {
    let _g = LOCK.lock().unwrap_or_else(|e| e.into_inner());
    for d in &DROPS { d.store(0, SeqCst); }
    let a: GenericArray<E, U5> = GenericArray::from_array([E(0, false), E(1, !back), E(2, false), E(3, back), E(4, false)]);
    let mut it = a.into_iter();
    let r = catch_unwind(AssertUnwindSafe(|| { if back { it.nth_back(3) } else { it.nth(3) } }));
    assert!(r.is_err());
    drop(it);
    DROPS.iter().map(|d| d.load(SeqCst)).collect()
}

#[test]
fn nth_no_double_drop() {
    let d = run(false);
    assert!(d.iter().all(|&c| c <= 1), "double drop after a panicking destructor in nth: {:?}", d);
}
#[test]
fn nth_back_no_double_drop() {
    let d = run(true);
    assert!(d.iter().all(|&c| c <= 1), "double drop after a panicking destructor in nth_back: {:?}", d);
}
