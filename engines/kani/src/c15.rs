//! C15 - heap interop preserves contents, needs the exact length, and reuses the allocation.
use crate::common::*;

fn once(lo: usize, hi: usize) {
    if hi > lo { let k = any_usize(); assume(k >= lo && k < hi); assert!(drops(k) == 1, "element not dropped exactly once"); }
}
fn never(lo: usize, hi: usize) {
    if hi > lo { let k = any_usize(); assume(k >= lo && k < hi); assert!(drops(k) == 0, "element dropped although it should be alive"); }
}

/// Vec / Box<[T]> sources; the source length (R / 4) and the Vec's spare capacity (R % 4) are concrete per
/// harness (a symbolic push loop with reallocation exhausts CBMC); the conversion form is symbolic.
pub fn from_heap<T, N: ArrayLength, const R: usize>() {
    let n = N::USIZE;
    let l = R / 4;
    let spare = R % 4;
    let mut v: Vec<Tr> = Vec::with_capacity(l + spare);
    let mut i = 0;
    while i < l { v.push(Tr::new(i)); i += 1; }
    let form = any_upto(3);
    kani_cover!(form == 1);
    kani_cover!(form == 3);
    let ok = match form {
        0 => {
            let r: Result<GenericArray<Tr, N>, LengthError> = GenericArray::try_from(v);
            if let Ok(a) = &r { if n > 0 { let j = any_upto(n - 1); assert!(a[j].observe() as usize == j, "contents reordered"); } }
            let ok = r.is_ok();
            if ok { never(0, l); }
            drop(r);
            ok
        }
        1 => {
            let r = GenericArray::<Tr, N>::try_from_vec(v);
            if let Ok(a) = &r { if n > 0 { let j = any_upto(n - 1); assert!(a[j].observe() as usize == j, "contents reordered"); } }
            let ok = r.is_ok();
            if ok { never(0, l); }
            drop(r);
            ok
        }
        2 => {
            let b: Box<[Tr]> = v.into_boxed_slice();
            let r = GenericArray::<Tr, N>::try_from_boxed_slice(b);
            if let Ok(a) = &r { if n > 0 { let j = any_upto(n - 1); assert!(a[j].observe() as usize == j, "contents reordered"); } }
            let ok = r.is_ok();
            if ok { never(0, l); }
            drop(r);
            ok
        }
        _ => {
            let b: Box<[Tr]> = v.into_boxed_slice();
            let r: Result<GenericArray<Tr, N>, LengthError> = GenericArray::try_from(b);
            if let Ok(a) = &r { if n > 0 { let j = any_upto(n - 1); assert!(a[j].observe() as usize == j, "contents reordered"); } }
            let ok = r.is_ok();
            if ok { never(0, l); }
            drop(r);
            ok
        }
    };
    assert!(ok == (l == n), "conversion must succeed exactly when the source length is N");
    // whichever way it went: every source element dropped exactly once by now
    once(0, l);
}

/// zero-sized drop-counting elements: every length has the same (empty) layout, only the length check tells them apart
pub fn from_heap_zst<T, N: ArrayLength, const R: usize>() {
    let n = N::USIZE;
    let l = R / 4;
    let mut v: Vec<TrZ> = Vec::new();
    let mut i = 0;
    while i < l { v.push(TrZ::new()); i += 1; }
    let form = any_upto(3);
    kani_cover!(form == 3);
    let ok = match form {
        0 => { let r: Result<GenericArray<TrZ, N>, LengthError> = GenericArray::try_from(v); let ok = r.is_ok(); if let Ok(a) = &r { assert!(a.len() == n); } drop(r); ok }
        1 => { let r = GenericArray::<TrZ, N>::try_from_vec(v); let ok = r.is_ok(); drop(r); ok }
        2 => { let r = GenericArray::<TrZ, N>::try_from_boxed_slice(v.into_boxed_slice()); let ok = r.is_ok(); drop(r); ok }
        _ => { let r: Result<GenericArray<TrZ, N>, LengthError> = GenericArray::try_from(v.into_boxed_slice()); let ok = r.is_ok(); drop(r); ok }
    };
    assert!(ok == (l == n), "conversion of zero-sized elements must succeed exactly when the source length is N");
    assert!(zdrops() == l && zlive() == 0, "zero-sized source elements not dropped exactly once");
}

/// the O(1) conversions hand over the same heap block
pub fn same_block<T: Sym, N: ArrayLength, const R: usize>() {
    let n = N::USIZE;
    let b: Box<GenericArray<T, N>> = Box::new(sym_ga());
    let big = core::mem::size_of::<GenericArray<T, N>>() > 0;
    let p0 = &*b as *const GenericArray<T, N> as usize;
    let s: Box<[T]> = b.into_boxed_slice();
    assert!(s.len() == n);
    assert!(!big || s.as_ptr() as usize == p0, "into_boxed_slice reallocated");
    let b2 = GenericArray::<T, N>::try_from_boxed_slice(s).ok().unwrap();
    assert!(!big || &*b2 as *const GenericArray<T, N> as usize == p0, "try_from_boxed_slice reallocated");
    let v: Vec<T> = b2.into_vec();
    assert!(v.len() == n);
    assert!(!big || v.as_ptr() as usize == p0, "into_vec reallocated");
    assert!(!big || v.capacity() == n);
    let b3 = GenericArray::<T, N>::try_from_vec(v).ok().unwrap();
    assert!(!big || &*b3 as *const GenericArray<T, N> as usize == p0, "try_from_vec with len == capacity reallocated");
    kani_cover!(true);
}

/// the boxed constructors build the right contents
pub fn boxed_ctors<T, N: ArrayLength, const R: usize>() {
    let n = N::USIZE;
    let salt = any_u32();
    let form = any_upto(3);
    kani_cover!(form == 3);
    let b: Box<GenericArray<u32, N>> = match form {
        0 => Box::<GenericArray<u32, N>>::generate(|i| salt.wrapping_add(i as u32)),
        1 => (0..n).map(|i| salt.wrapping_add(i as u32)).collect(),
        2 => GenericArray::<u32, N>::try_boxed_from_iter((0..n).map(|i| salt.wrapping_add(i as u32))).ok().unwrap(),
        _ => {
            let d = GenericArray::<u32, N>::default_boxed();
            if n > 0 { let j = any_upto(n - 1); assert!(d[j] == 0); }
            d.map(|_| 0u32).zip(Box::<GenericArray<u32, N>>::generate(|i| salt.wrapping_add(i as u32)), |a, b| a + b)
        }
    };
    if n > 0 { let j = any_upto(n - 1); assert!(b[j] == salt.wrapping_add(j as u32), "boxed constructor built the wrong contents"); }
    // and back to the stack / to a Vec
    let v: Vec<u32> = (*b).into();
    assert!(v.len() == n);
    if n > 0 { let j = any_upto(n - 1); assert!(v[j] == salt.wrapping_add(j as u32)); }
}

macro_rules! c15_lattice {
    ($body:ident; $($name:ident: $T:ty, $N:ty, $u:literal;)*) => {
        pub mod $body {
            use super::super::$body;
            use crate::common::*;
            lattice! { $body; $($name: <$T, $N, 0> unwind $u;)* }
        }
    };
}
pub mod q {
    pub mod from_heap {
        use super::super::from_heap;
        use crate::common::*;
        // name: N, source length, spare capacity  (R = 4 * length + spare)
        lattice! { from_heap;
            n0_l0_s0: <(), U0, 0> unwind 5; n0_l0_s2: <(), U0, 2> unwind 5; n0_l1_s0: <(), U0, 4> unwind 5;
            n1_l0_s0: <(), U1, 0> unwind 6; n1_l1_s0: <(), U1, 4> unwind 6; n1_l1_s2: <(), U1, 6> unwind 6; n1_l2_s0: <(), U1, 8> unwind 6;
            n3_l0_s0: <(), U3, 0> unwind 8; n3_l2_s0: <(), U3, 8> unwind 8; n3_l2_s1: <(), U3, 9> unwind 8; n3_l3_s0: <(), U3, 12> unwind 8; n3_l3_s2: <(), U3, 14> unwind 8; n3_l4_s0: <(), U3, 16> unwind 8; n3_l4_s2: <(), U3, 18> unwind 8;
        }
    }
    pub mod from_heap_zst {
        use super::super::from_heap_zst;
        use crate::common::*;
        lattice! { from_heap_zst; n0_l0: <(), U0, 0> unwind 5; n0_l1: <(), U0, 4> unwind 5; n2_l1: <(), U2, 4> unwind 7; n2_l2: <(), U2, 8> unwind 7; n2_l3: <(), U2, 12> unwind 7; n3_l5: <(), U3, 20> unwind 9; }
    }
    c15_lattice! { same_block; u32_n0: u32, U0, 4; u32_n1: u32, U1, 5; u32_n3: u32, U3, 7; unit_n3: (), U3, 7; u64_n4: u64, U4, 8; }
    c15_lattice! { boxed_ctors; n0: (), U0, 4; n1: (), U1, 5; n3: (), U3, 7; n4: (), U4, 8; }
}
pub mod t {
    pub mod from_heap {
        use super::super::from_heap;
        use crate::common::*;
        lattice! { from_heap;
            n2_l1_s0: <(), U2, 4> unwind 7; n2_l2_s0: <(), U2, 8> unwind 7; n2_l2_s3: <(), U2, 11> unwind 7; n2_l3_s0: <(), U2, 12> unwind 7;
            n4_l3_s0: <(), U4, 12> unwind 9; n4_l4_s0: <(), U4, 16> unwind 9; n4_l4_s1: <(), U4, 17> unwind 9; n4_l5_s0: <(), U4, 20> unwind 9; n4_l0_s0: <(), U4, 0> unwind 9;
            n8_l7_s0: <(), U8, 28> unwind 13; n8_l8_s0: <(), U8, 32> unwind 13; n8_l8_s2: <(), U8, 34> unwind 13; n8_l9_s0: <(), U8, 36> unwind 13;
        }
    }
    c15_lattice! { same_block; u8_n8: u8, U8, 12; pad_n5: (u8, u16), U5, 9; a16_n2: A16, U2, 6; unit_n0: (), U0, 4; }
    c15_lattice! { boxed_ctors; n2: (), U2, 6; n5: (), U5, 9; n8: (), U8, 12; }
}
