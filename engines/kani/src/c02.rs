//! C02 - borrowed views alias the array's storage; reinterpretation needs the exact length.
use crate::common::*;
use core::borrow::{Borrow, BorrowMut};

/// `try_from_slice` / `TryFrom<&[T]>`: Ok iff L == N, result aliases the source. L symbolic in 0..=R.
pub fn try_from_slice<T: Sym, N: ArrayLength, const R: usize>() {
    let raw: [T; R] = sym_arr();
    let l = any_upto(R);
    let n = N::USIZE;
    let s = &raw[..l];
    kani_cover!(n == 0 || l < n);
    kani_cover!(l == n);
    kani_cover!(l > n);
    let which = any_bool();
    let r: Result<&GenericArray<T, N>, LengthError> =
        if which { GenericArray::<T, N>::try_from_slice(s) } else { <&GenericArray<T, N>>::try_from(s) };
    match r {
        Ok(a) => {
            assert!(l == n, "reinterpreted a slice of the wrong length");
            assert!(zero_sized::<T, N>() || a.as_slice().as_ptr() == s.as_ptr());
            assert!(zero_sized::<T, N>() || a as *const GenericArray<T, N> as usize == s.as_ptr() as usize);
            assert!(a.as_slice().len() == n);
            if n > 0 {
                let i = any_upto(n - 1);
                assert!(zero_sized::<T, N>() || core::ptr::eq(&a[i], &raw[i]));
                assert!(a[i].same(&raw[i]));
            }
        }
        Err(LengthError) => assert!(l != n, "rejected a slice of exactly N elements"),
    }
}

/// mutable forms: `try_from_mut_slice` / `TryFrom<&mut [T]>`, plus write-through
pub fn try_from_mut_slice<T: Sym, N: ArrayLength, const R: usize>() {
    let mut raw: [T; R] = sym_arr();
    let l = any_upto(R);
    let n = N::USIZE;
    let base = raw.as_ptr() as usize;
    kani_cover!(n == 0 || l < n);
    kani_cover!(l == n);
    kani_cover!(l > n);
    let which = any_bool();
    let i = any_usize();
    let v = T::sym();
    let v2 = T::sym();
    assume(v.same(&v2));
    let mut wrote = false;
    {
        let s = &mut raw[..l];
        let r: Result<&mut GenericArray<T, N>, LengthError> =
            if which { GenericArray::<T, N>::try_from_mut_slice(s) } else { <&mut GenericArray<T, N>>::try_from(s) };
        match r {
            Ok(a) => {
                assert!(l == n, "reinterpreted a slice of the wrong length");
                assert!(zero_sized::<T, N>() || a.as_mut_slice().as_mut_ptr() as usize == base);
                assert!(a.as_slice().len() == n);
                if i < n {
                    a[i] = v;
                    wrote = true;
                }
            }
            Err(LengthError) => assert!(l != n, "rejected a slice of exactly N elements"),
        }
    }
    if wrote {
        assert!(raw[i].same(&v2), "write through the reinterpreted reference not visible in the source");
    }
}

/// `from_slice` / `from_mut_slice` with L == N: aliases
pub fn from_slice_ok<T: Sym, N: ArrayLength, const R: usize>() {
    let mut raw: [T; R] = sym_arr();
    let n = N::USIZE;
    assert!(n <= R);
    let p = raw.as_ptr() as usize;
    {
        let a = GenericArray::<T, N>::from_slice(&raw[..n]);
        assert!((zero_sized::<T, N>() || a.as_ptr() as usize == p) && a.len() == n);
    }
    {
        let a = GenericArray::<T, N>::from_mut_slice(&mut raw[..n]);
        assert!((zero_sized::<T, N>() || a.as_ptr() as usize == p) && a.len() == n);
    }
}

/// `from_slice` / `from_mut_slice` with L != N: must panic (never return)
pub fn from_slice_panics<T: Sym, N: ArrayLength, const R: usize>() {
    let mut raw: [T; R] = sym_arr();
    let l = any_upto(R);
    let n = N::USIZE;
    assume(l != n);
    if any_bool() {
        let a = GenericArray::<T, N>::from_slice(&raw[..l]);
        kani_cover!(true, "MUST_NOT_REACH: from_slice returned for L != N");
    } else {
        let a = GenericArray::<T, N>::from_mut_slice(&mut raw[..l]);
        kani_cover!(true, "MUST_NOT_REACH: from_mut_slice returned for L != N");
    }
}

/// every shared view starts at the array's address and has N elements in index order
pub fn shared_views<T: Sym, N: ArrayLength, const R: usize>() {
    let a: GenericArray<T, N> = sym_ga();
    let n = N::USIZE;
    let base = &a as *const GenericArray<T, N> as usize;
    let views: [&[T]; 5] = [a.as_slice(), &*a, AsRef::<[T]>::as_ref(&a), Borrow::<[T]>::borrow(&a), &a[..]];
    let k = any_upto(4);
    assert!(zero_sized::<T, N>() || views[k].as_ptr() as usize == base, "view does not start at the array");
    assert!(views[k].len() == n, "view has the wrong length");
    assert!(core::mem::size_of::<GenericArray<T, N>>() == n * core::mem::size_of::<T>());
    if n > 0 {
        let i = any_upto(n - 1);
        // index order: element i of the view is at base + i*size
        assert!(zero_sized::<T, N>() || &views[k][i] as *const T as usize == base + i * core::mem::size_of::<T>());
        // by-reference iteration visits the same objects in index order
        let mut it = (&a).into_iter();
        let mut cnt = 0;
        let mut ok = true;
        for (j, e) in (&a).into_iter().enumerate() {
            ok &= zero_sized::<T, N>() || e as *const T as usize == base + j * core::mem::size_of::<T>();
            cnt += 1;
        }
        assert!(ok && cnt == n);
    } else {
        assert!((&a).into_iter().next().is_none());
    }
}

/// a write through any mutable view is seen through every other view
pub fn mutable_views<T: Sym, N: ArrayLength, const R: usize>() {
    let mut a: GenericArray<T, N> = sym_ga();
    let n = N::USIZE;
    let base = &a as *const GenericArray<T, N> as usize;
    let k = any_upto(5);
    let v = T::sym();
    let v2 = T::sym();
    assume(v.same(&v2));
    let i = any_usize();
    assume(n == 0 || i < n);
    kani_cover!(k == 5 && (n == 0 || i == n - 1));
    {
        let view: &mut [T] = match k {
            0 => a.as_mut_slice(),
            1 => &mut *a,
            2 => AsMut::<[T]>::as_mut(&mut a),
            3 => BorrowMut::<[T]>::borrow_mut(&mut a),
            4 => &mut a[..],
            _ => (&mut a).into_iter().into_slice(),
        };
        assert!((zero_sized::<T, N>() || view.as_ptr() as usize == base) && view.len() == n);
        if n > 0 {
            view[i] = v;
        }
    }
    if n > 0 {
        assert!(a.as_slice()[i].same(&v2));
        assert!(a[i].same(&v2));
        assert!(AsRef::<[T]>::as_ref(&a)[i].same(&v2));
        assert!(Borrow::<[T]>::borrow(&a)[i].same(&v2));
        assert!((&a).into_iter().nth(i).unwrap().same(&v2));
        assert!(a.as_mut_slice()[i].same(&v2));
    }
}

macro_rules! c02_views_lattice {
    ($body:ident) => {
        pub mod $body {
            use super::super::$body;
            use crate::common::*;
            lattice! { $body;
                u8_u0: <u8, U0, 3> unwind 6;
                u8_u1: <u8, U1, 4> unwind 7;
                u8_u2: <u8, U2, 5> unwind 8;
                u8_u3: <u8, U3, 6> unwind 9;
                u8_u5: <u8, U5, 8> unwind 11;
                u8_u8: <u8, U8, 11> unwind 14;
                u32_u0: <u32, U0, 3> unwind 6;
                u32_u4: <u32, U4, 7> unwind 10;
                u32_u7: <u32, U7, 10> unwind 13;
                unit_u0: <(), U0, 3> unwind 6;
                unit_u3: <(), U3, 6> unwind 9;
                pad_u3: <(u8, u16), U3, 6> unwind 9;
                a16_u2: <A16, U2, 5> unwind 8;
            }
        }
    };
}
macro_rules! c02_views_lattice_t {
    ($body:ident) => {
        pub mod $body {
            use super::super::$body;
            use crate::common::*;
            lattice! { $body;
                u8_u4: <u8, U4, 7> unwind 10;
                u8_u6: <u8, U6, 9> unwind 12;
                u8_u7: <u8, U7, 10> unwind 13;
                u8_u9: <u8, U9, 12> unwind 15;
                u8_u12: <u8, U12, 15> unwind 18;
                u8_u16: <u8, U16, 19> unwind 22;
                u8_u17: <u8, U17, 20> unwind 23;
                u8_u31: <u8, U31, 34> unwind 37;
                u8_u32: <u8, U32, 35> unwind 38;
                u8_u33: <u8, U33, 36> unwind 39;
                u8_u64: <u8, U64, 67> unwind 70;
                u8_u65: <u8, U65, 68> unwind 71;
                u32_u1: <u32, U1, 4> unwind 7;
                u32_u2: <u32, U2, 5> unwind 8;
                u32_u3: <u32, U3, 6> unwind 9;
                u32_u8: <u32, U8, 11> unwind 14;
                u32_u15: <u32, U15, 18> unwind 21;
                unit_u1: <(), U1, 4> unwind 7;
                unit_u8: <(), U8, 11> unwind 14;
                unit_u33: <(), U33, 36> unwind 39;
                pad_u0: <(u8, u16), U0, 3> unwind 6;
                pad_u1: <(u8, u16), U1, 4> unwind 7;
                pad_u8: <(u8, u16), U8, 11> unwind 14;
                a16_u0: <A16, U0, 3> unwind 6;
                a16_u5: <A16, U5, 8> unwind 11;
                z8_u3: <Z8, U3, 6> unwind 9;
                b3_u5: <[u8; 3], U5, 8> unwind 11;
            }
        }
    };
}
macro_rules! c02_panics_lattice {
    ($body:ident) => {
        pub mod $body {
            use super::super::$body;
            use crate::common::*;
            lattice_panics! { $body;
                u8_u0: <u8, U0, 3> unwind 6;
                u8_u1: <u8, U1, 4> unwind 7;
                u8_u3: <u8, U3, 6> unwind 9;
                u8_u8: <u8, U8, 11> unwind 14;
                u32_u4: <u32, U4, 7> unwind 10;
                unit_u3: <(), U3, 6> unwind 9;
            }
        }
    };
}

// ------------------------------------------------------------------ native arrays and tuples

/// `From<&[T; N]>`, `From<&mut [T; N]>`, `AsRef<[T; N]>`, `AsMut<[T; N]>` alias; by-value conversions keep positions.
macro_rules! native_array_harness {
    ($name:ident, $T:ty, $N:ty, $n:literal, $u:literal) => {
        harness! { unwind $u, fn $name() {
            let mut raw: [$T; $n] = sym_arr();
            let copy: [$T; $n] = core::array::from_fn(|j| { let w = <$T>::sym(); assume(w.same(&raw[j])); w });
            let base = raw.as_ptr() as usize;
            let i = any_usize();
            assume($n == 0 || i < $n);
            {
                let g: &GenericArray<$T, $N> = (&raw).into();
                assert!((zero_sized::<$T, $N>() || g.as_ptr() as usize == base) && g.len() == $n);
                let back: &[$T; $n] = g.as_ref();
                assert!(zero_sized::<$T, $N>() || back.as_ptr() as usize == base);
                if $n > 0 { assert!(g[i].same(&copy[i])); }
            }
            let v = <$T>::sym();
            let v2 = <$T>::sym();
            assume(v.same(&v2));
            {
                let g: &mut GenericArray<$T, $N> = (&mut raw).into();
                assert!((zero_sized::<$T, $N>() || g.as_ptr() as usize == base) && g.len() == $n);
                let back: &mut [$T; $n] = g.as_mut();
                assert!(zero_sized::<$T, $N>() || back.as_ptr() as usize == base);
                if $n > 0 { back[i] = v; }
            }
            if $n > 0 { assert!(raw[i].same(&v2)); }
            // by value, both spellings, there and back
            let g1: GenericArray<$T, $N> = GenericArray::from_array(raw);
            if $n > 0 { assert!(g1[i].same(&v2)); }
            let j = any_usize();
            assume($n == 0 || j < $n);
            if $n > 0 && j != i { assert!(g1[j].same(&copy[j])); }
            let r1: [$T; $n] = g1.into_array();
            let g2: GenericArray<$T, $N> = r1.into();
            let r2: [$T; $n] = g2.into();
            if $n > 0 { assert!(r2[i].same(&v2)); if j != i { assert!(r2[j].same(&copy[j])); } }
            kani_cover!($n < 2 || j != i);
        }}
    };
}

macro_rules! tuple_harness {
    ($name:ident, $N:ty, $n:literal, ($($x:ident),*)) => {
        harness! { unwind 15, fn $name() {
            $( let $x = any_u32(); )*
            let expect: [u32; $n] = [$($x),*];
            let g: GenericArray<u32, $N> = ($($x,)*).into();
            let i = any_upto($n - 1);
            assert!(g[i] == expect[i], "tuple -> array moved an element to another position");
            let t: ($(tuple_harness!(@ty $x),)*) = g.into();
            let ($($x,)*) = t;
            let back: [u32; $n] = [$($x),*];
            assert!(back[i] == expect[i], "array -> tuple moved an element to another position");
        }}
    };
    (@ty $x:ident) => { u32 };
}

pub mod q {
    c02_views_lattice!(try_from_slice);
    c02_views_lattice!(try_from_mut_slice);
    c02_views_lattice!(shared_views);
    c02_views_lattice!(mutable_views);
    c02_panics_lattice!(from_slice_panics);
    pub mod from_slice_ok {
        use super::super::from_slice_ok;
        use crate::common::*;
        lattice! { from_slice_ok;
            u8_u0: <u8, U0, 3> unwind 6;
            u8_u3: <u8, U3, 6> unwind 9;
            u32_u8: <u32, U8, 11> unwind 14;
            unit_u3: <(), U3, 6> unwind 9;
        }
    }
    pub mod native {
        use crate::common::*;
        native_array_harness!(u8_0, u8, U0, 0, 4);
        native_array_harness!(u8_1, u8, U1, 1, 5);
        native_array_harness!(u8_5, u8, U5, 5, 9);
        native_array_harness!(u32_3, u32, U3, 3, 7);
        native_array_harness!(pad_4, (u8, u16), U4, 4, 8);
        native_array_harness!(unit_2, (), U2, 2, 6);
    }
    pub mod tuples {
        use crate::common::*;
        tuple_harness!(t1, U1, 1, (a));
        tuple_harness!(t2, U2, 2, (a, b));
        tuple_harness!(t3, U3, 3, (a, b, c));
        tuple_harness!(t4, U4, 4, (a, b, c, d));
        tuple_harness!(t5, U5, 5, (a, b, c, d, e));
        tuple_harness!(t6, U6, 6, (a, b, c, d, e, f));
        tuple_harness!(t7, U7, 7, (a, b, c, d, e, f, g));
        tuple_harness!(t8, U8, 8, (a, b, c, d, e, f, g, h));
        tuple_harness!(t9, U9, 9, (a, b, c, d, e, f, g, h, i0));
        tuple_harness!(t10, U10, 10, (a, b, c, d, e, f, g, h, i0, j));
        tuple_harness!(t11, U11, 11, (a, b, c, d, e, f, g, h, i0, j, k));
        tuple_harness!(t12, U12, 12, (a, b, c, d, e, f, g, h, i0, j, k, l));
    }
}

pub mod t {
    c02_views_lattice_t!(try_from_slice);
    c02_views_lattice_t!(try_from_mut_slice);
    c02_views_lattice_t!(shared_views);
    c02_views_lattice_t!(mutable_views);
    pub mod from_slice_panics {
        use super::super::from_slice_panics;
        use crate::common::*;
        lattice_panics! { from_slice_panics;
            u8_u2: <u8, U2, 5> unwind 8;
            u8_u16: <u8, U16, 19> unwind 22;
            u8_u33: <u8, U33, 36> unwind 39;
            u32_u0: <u32, U0, 3> unwind 6;
            pad_u3: <(u8, u16), U3, 6> unwind 9;
        }
    }
    pub mod native {
        use crate::common::*;
        native_array_harness!(u8_2, u8, U2, 2, 6);
        native_array_harness!(u8_8, u8, U8, 8, 12);
        native_array_harness!(u8_17, u8, U17, 17, 21);
        native_array_harness!(u8_33, u8, U33, 33, 37);
        native_array_harness!(u32_0, u32, U0, 0, 4);
        native_array_harness!(u32_7, u32, U7, 7, 11);
        native_array_harness!(a16_3, A16, U3, 3, 7);
        native_array_harness!(unit_0, (), U0, 0, 4);
        native_array_harness!(b3_5, [u8; 3], U5, 5, 9);
    }
}
