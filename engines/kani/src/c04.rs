//! C04 (K complement) - the three guards every unwind path ends in (`ArrayBuilder`, `IntrusiveArrayBuilder`,
//! `ArrayConsumer`, reached through the crate's `internals` feature) release exactly the elements they own
//! when dropped at an arbitrary position p in 0..=N.  The panicking paths themselves are engine M's.
use crate::common::*;
use core::mem::MaybeUninit;
use generic_array::internals::{ArrayBuilder, ArrayConsumer, IntrusiveArrayBuilder};

fn once(lo: usize, hi: usize) {
    if hi > lo {
        let k = any_usize();
        assume(k >= lo && k < hi);
        assert!(drops(k) == 1, "guard did not drop an element it owns");
    }
}
fn never(lo: usize, hi: usize) {
    if hi > lo {
        let k = any_usize();
        assume(k >= lo && k < hi);
        assert!(drops(k) == 0, "guard dropped an element it does not own");
    }
}

pub fn guards<T, N: ArrayLength, const R: usize>() {
    let n = N::USIZE;
    let p = any_upto(n);
    let which = any_upto(2);
    kani_cover!(which == 2 && p == n);
    kani_cover!(which == 0 && (p < n || n == 0));
    unsafe {
        match which {
            0 => {
                let mut b = ArrayBuilder::<Tr, N>::new();
                {
                    let (iter, pos) = b.iter_position();
                    for (i, dst) in iter.enumerate() {
                        if i >= p { break; }
                        dst.write(Tr::new(i));
                        *pos += 1;
                    }
                }
                assert!(b.is_full() == (p == n));
                never(0, n);
                drop(b);
                once(0, p);
            }
            1 => {
                let mut arr = GenericArray::<Tr, N>::uninit();
                {
                    let mut b = IntrusiveArrayBuilder::new(&mut arr);
                    {
                        let (iter, pos) = b.iter_position();
                        for (i, dst) in iter.enumerate() {
                            if i >= p { break; }
                            dst.write(Tr::new(i));
                            *pos += 1;
                        }
                    }
                    assert!(b.is_full() == (p == n));
                    never(0, n);
                    drop(b);
                }
                once(0, p);
                // the MaybeUninit array itself owns nothing
                drop(arr);
                once(0, p);
            }
            _ => {
                let mut c = ArrayConsumer::new(tr_array::<N>(0));
                let mut taken = 0;
                {
                    let (iter, pos) = c.iter_position();
                    for (i, src) in iter.enumerate() {
                        if i >= p { break; }
                        let v = core::ptr::read(src);
                        *pos += 1;
                        core::mem::forget(v); // the caller keeps these
                        taken += 1;
                    }
                }
                assert!(taken == p);
                drop(c);
                never(0, p);
                once(p, n);
            }
        }
    }
}

pub mod q {
    pub mod guards {
        use super::super::guards;
        use crate::common::*;
        lattice! { guards;
            n0: <(), U0, 0> unwind 3;
            n1: <(), U1, 0> unwind 4;
            n3: <(), U3, 0> unwind 6;
            n4: <(), U4, 0> unwind 7;
        }
    }
}
pub mod t {
    pub mod guards {
        use super::super::guards;
        use crate::common::*;
        lattice! { guards;
            n2: <(), U2, 0> unwind 5;
            n5: <(), U5, 0> unwind 8;
            n8: <(), U8, 0> unwind 11;
        }
    }
}
