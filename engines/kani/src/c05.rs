//! C05 (K complement) - while a destructor runs inside `nth` / `nth_back`, the iterator must no longer
//! claim the element being destroyed: if that destructor panicked, the (still live) iterator would
//! otherwise drop the element a second time from its own `Drop`.
//!
//! Kani has no unwinding, so the panic itself is engine M's business.  This harness observes, from inside
//! the destructor (i.e. at every potential panic point), the iterator's public `as_slice()` range.
use crate::common::*;

static mut ITER: *const () = core::ptr::null();
static mut CLAIMS: Option<fn(*const (), u8) -> bool> = None;
static mut DESTROYED: usize = 0;

pub struct Obs {
    pub id: u8,
}
impl Drop for Obs {
    fn drop(&mut self) {
        unsafe {
            DESTROYED += 1;
            if let Some(claims) = CLAIMS {
                if !ITER.is_null() {
                    assert!(!claims(ITER, self.id),
                        "iterator still claims the element whose destructor is running: a panic here is followed by a second drop");
                }
            }
        }
    }
}
fn claims<N: ArrayLength>(p: *const (), id: u8) -> bool {
    let it = unsafe { &*(p as *const GenericArrayIter<Obs, N>) };
    let s = it.as_slice();
    let mut i = 0;
    let mut hit = false;
    while i < s.len() {
        hit |= s[i].id == id;
        i += 1;
    }
    hit
}

pub fn observe_skips<T, N: ArrayLength, const R: usize>() {
    let n = N::USIZE;
    let a: GenericArray<Obs, N> = GenericArray::generate(|i| Obs { id: i as u8 });
    let mut it = a.into_iter();
    let f = any_upto(n);
    let b = any_upto(n);
    assume(f + b <= n);
    let mut k = 0;
    while k < f { core::mem::forget(it.next()); k += 1; }
    k = 0;
    while k < b { core::mem::forget(it.next_back()); k += 1; }
    let len = n - f - b;
    let arg = any_usize();
    let back = any_bool();
    unsafe {
        ITER = &it as *const GenericArrayIter<Obs, N> as *const ();
        CLAIMS = Some(claims::<N>);
        DESTROYED = 0;
    }
    let r = if back { it.nth_back(arg) } else { it.nth(arg) };
    unsafe { ITER = core::ptr::null(); }
    let skipped = if arg < len { arg } else { len };
    assert!(unsafe { DESTROYED } == skipped);
    kani_cover!(skipped >= 2 || n < 3, "at least two destructors ran while the iterator was live");
    kani_cover!(back && skipped >= 1 || n == 0);
    core::mem::forget(r);
    core::mem::forget(it);
}

pub mod q {
    pub mod observe_skips {
        use super::super::observe_skips;
        use crate::common::*;
        lattice! { observe_skips;
            n0: <(), U0, 0> unwind 3;
            n1: <(), U1, 0> unwind 4;
            n3: <(), U3, 0> unwind 6;
            n5: <(), U5, 0> unwind 8;
        }
    }
}
pub mod t {
    pub mod observe_skips {
        use super::super::observe_skips;
        use crate::common::*;
        lattice! { observe_skips;
            n2: <(), U2, 0> unwind 5;
            n4: <(), U4, 0> unwind 7;
            n6: <(), U6, 0> unwind 9;
            n8: <(), U8, 0> unwind 11;
        }
    }
}
