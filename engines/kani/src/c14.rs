//! C14 - hex formatting prints exactly the bytes' digits, truncated to the precision.
//! End to end through `LowerHex`/`UpperHex` with a directly constructed Formatter (symbolic precision) and a
//! recording sink; the expected digit comes from an independent nibble -> digit model.
use crate::common::*;
use core::fmt::{LowerHex, UpperHex};
use core::ops::Add;
use generic_array::typenum::Sum;

fn digit(nib: u8, upper: bool) -> u8 {
    if nib < 10 { b'0' + nib } else if upper { b'A' + (nib - 10) } else { b'a' + (nib - 10) }
}

pub fn hex<T, N, const R: usize>()
where
    N: ArrayLength + Add<N>,
    Sum<N, N>: ArrayLength,
{
    let n = N::USIZE;
    let a: GenericArray<u8, N> = GenericArray::generate(|_| any_u8());
    let upper = any_bool();
    let prec: Option<u16> = if any_bool() { let p = any_u16(); assume(p as usize <= 2 * n + 2); Some(p) } else { None };
    let mut s = Sink::new();
    {
        let mut o = core::fmt::FormattingOptions::new();
        o.precision(prec);
        let mut f = o.create_formatter(&mut s);
        let r = if upper { UpperHex::fmt(&a, &mut f) } else { LowerHex::fmt(&a, &mut f) };
        assert!(r.is_ok());
    }
    let want = match prec { Some(p) if (p as usize) < 2 * n => p as usize, _ => 2 * n };
    kani_cover!(prec.is_none());
    kani_cover!(n == 0 || prec.map_or(false, |p| p % 2 == 1 && (p as usize) < 2 * n), "odd precision inside the string");
    kani_cover!(prec == Some(0));
    kani_cover!(prec.map_or(false, |p| p as usize > 2 * n), "precision beyond the string");
    assert!(s.len == want, "output length is not min(precision, 2N)");
    if want > 0 {
        let j = any_upto(want - 1);
        let byte = a[j / 2];
        let nib = if j % 2 == 0 { byte >> 4 } else { byte & 0xF };
        assert!(s.buf[j] == digit(nib, upper), "wrong hex digit");
    }
}

macro_rules! c14_lattice {
    ($($name:ident: $N:ty, $u:literal;)*) => {
        pub mod hex {
            use super::super::hex;
            use crate::common::*;
            lattice! { hex; $($name: <(), $N, 0> unwind $u;)* }
        }
    };
}
pub mod q {
    c14_lattice! { n0: U0, 4; n1: U1, 6; n2: U2, 8; n15: U15, 34; n16: U16, 36; n17: U17, 38; n20: U20, 44; }
}
pub mod t {
    c14_lattice! { n3: U3, 10; n4: U4, 12; n5: U5, 14; n6: U6, 16; n7: U7, 18; n8: U8, 20; n9: U9, 22; n10: U10, 24; n11: U11, 26; n12: U12, 28; n13: U13, 30; n14: U14, 32; n18: U18, 40; n19: U19, 42;
                   n31: U31, 66; n32: U32, 68; n33: U33, 70; }
}
