//! C03 - every element is dropped exactly once across any history of ownership moves.
//!
//! Inductive step per operation: start from an arbitrary state of the form "arrays own N live, distinct
//! elements; an iterator owns exactly the elements in [front, back)", apply one operation, then drop
//! whatever the caller still owns, and require for a symbolic element id that it was dropped exactly once
//! (`Tr::drop` itself asserts "not twice", `Tr::observe` asserts "not after its drop").
use crate::common::*;

/// every id in lo..hi dropped exactly once (symbolic witness id)
fn once(lo: usize, hi: usize) {
    if hi > lo {
        let k = any_usize();
        assume(k >= lo && k < hi);
        assert!(drops(k) == 1, "element not dropped exactly once (leak)");
    }
}
fn never(lo: usize, hi: usize) {
    if hi > lo {
        let k = any_usize();
        assume(k >= lo && k < hi);
        assert!(drops(k) == 0, "element dropped that should still be alive / never existed");
    }
}
fn alive(v: &Tr) {
    v.observe();
}

/// by-value iterator: from every reachable position one operation, then abandon
pub fn iter_op<T, N: ArrayLength, const R: usize>() {
    let n = N::USIZE;
    let mut it = tr_array::<N>(0).into_iter();
    let f = any_upto(n);
    let b = any_upto(n);
    assume(f + b <= n);
    let mut k = 0;
    while k < f {
        let x = it.next().unwrap();
        assert!(x.observe() as usize == k);
        k += 1;
    }
    k = 0;
    while k < b {
        let x = it.next_back().unwrap();
        assert!(x.observe() as usize == n - 1 - k);
        k += 1;
    }
    // consumed elements were dropped by the harness exactly once; the rest is untouched
    once(0, f);
    once(n - b, n);
    never(f, n - b);
    let (mf, mb) = (f, n - b);
    let len = mb - mf;
    let op = any_upto(9);
    let arg = any_usize();
    kani_cover!(op == 2 && arg < len || n == 0);
    kani_cover!(op == 9);
    kani_cover!(f + b == n);
    match op {
        0 => {
            if let Some(x) = it.next() { alive(&x); assert!(x.id as usize == mf); never(mf, mb); }
            drop(it);
        }
        1 => {
            if let Some(x) = it.next_back() { alive(&x); assert!(x.id as usize == mb - 1); never(mf, mb); }
            drop(it);
        }
        2 => {
            let r = it.nth(arg);
            if arg < len {
                let x = r.unwrap();
                alive(&x);
                once(mf, mf + arg);          // skipped elements are gone
                never(mf + arg, mb);         // the returned one and the rest are alive
            } else {
                assert!(r.is_none());
                once(mf, mb);
            }
            drop(it);
        }
        3 => {
            let r = it.nth_back(arg);
            if arg < len {
                let x = r.unwrap();
                alive(&x);
                once(mb - arg, mb);
                never(mf, mb - arg);
            } else {
                assert!(r.is_none());
                once(mf, mb);
            }
            drop(it);
        }
        4 => {
            // clone: clones carry id + CLONE_OFFSET
            let c = it.clone();
            never(mf, mb);
            never(CLONE_OFFSET, CLONE_OFFSET + n);
            drop(it);
            once(mf, mb);
            never(CLONE_OFFSET, CLONE_OFFSET + n);
            let mut seen = 0;
            for x in c {
                alive(&x);
                assert!(x.id as usize == CLONE_OFFSET + mf + seen);
                seen += 1;
            }
            assert!(seen == len);
            once(CLONE_OFFSET + mf, CLONE_OFFSET + mb);
            never(CLONE_OFFSET, CLONE_OFFSET + mf);
            never(CLONE_OFFSET + mb, CLONE_OFFSET + n);
        }
        5 => {
            let cnt = it.fold(0usize, |acc, x| { alive(&x); acc + 1 });
            assert!(cnt == len);
        }
        6 => {
            let cnt = it.rfold(0usize, |acc, x| { alive(&x); acc + 1 });
            assert!(cnt == len);
        }
        7 => {
            assert!(it.count() == len);
        }
        8 => {
            if let Some(x) = it.last() { alive(&x); assert!(x.id as usize == mb - 1); once(mf, mb - 1); }
        }
        _ => {
            // abandon early
            drop(it);
        }
    }
    once(0, n);
}

/// same with a drop-counting zero-sized element type
pub fn iter_op_zst<T, N: ArrayLength, const R: usize>() {
    let n = N::USIZE;
    let mut it = trz_array::<N>().into_iter();
    assert!(zlive() == n && zdrops() == 0);
    let f = any_upto(n);
    let b = any_upto(n);
    assume(f + b <= n);
    let mut k = 0;
    while k < f { it.next().unwrap(); k += 1; }
    k = 0;
    while k < b { it.next_back().unwrap(); k += 1; }
    assert!(zdrops() == f + b);
    let len = n - f - b;
    let op = any_upto(6);
    let arg = any_usize();
    match op {
        0 => { let r = it.nth(arg); assert!(zdrops() == f + b + if arg < len { arg } else { len }); drop(r); }
        1 => { let r = it.nth_back(arg); assert!(zdrops() == f + b + if arg < len { arg } else { len }); drop(r); }
        2 => {
            // TrZ is not Clone: fold instead
            let c = it.fold(0usize, |a, _x| a + 1);
            assert!(c == len);
            assert!(zdrops() == n);
            return;
        }
        3 => { assert!(it.count() == len); assert!(zdrops() == n); return; }
        4 => { let l = it.last(); assert!(l.is_some() == (len > 0)); drop(l); assert!(zdrops() == n && zlive() == 0); return; }
        5 => { let c = it.rfold(0usize, |a, _x| a + 1); assert!(c == len); assert!(zdrops() == n); return; }
        _ => {}
    }
    drop(it);
    assert!(zdrops() == n && zlive() == 0, "zero-sized elements not dropped exactly once");
}

/// generate / map / zip / fold / clone on owned arrays
pub fn functional<T, N: ArrayLength, const R: usize>() {
    let n = N::USIZE;
    let a = tr_array::<N>(0);
    never(0, n);
    let op = any_upto(7);
    kani_cover!(op == 4);
    kani_cover!(op == 7);
    match op {
        0 => {
            let m: GenericArray<Tr, N> = a.map(|x| { alive(&x); Tr::new(x.id as usize + CLONE_OFFSET) });
            once(0, n);
            never(CLONE_OFFSET, CLONE_OFFSET + n);
            drop(m);
            once(CLONE_OFFSET, CLONE_OFFSET + n);
        }
        1 => {
            let b = tr_array::<N>(CLONE_OFFSET);
            let z: GenericArray<Tr, N> = a.zip(b, |x, y| { alive(&x); alive(&y); assert!(y.id as usize == x.id as usize + CLONE_OFFSET); Tr::new(x.id as usize + 2 * CLONE_OFFSET) });
            once(0, n);
            once(CLONE_OFFSET, CLONE_OFFSET + n);
            never(2 * CLONE_OFFSET, 2 * CLONE_OFFSET + n);
            drop(z);
            once(2 * CLONE_OFFSET, 2 * CLONE_OFFSET + n);
        }
        2 => {
            let s = a.fold(0usize, |acc, x| { alive(&x); acc + 1 });
            assert!(s == n);
        }
        3 => {
            let c = a.clone();
            never(0, n);
            never(CLONE_OFFSET, CLONE_OFFSET + n);
            drop(a);
            once(0, n);
            never(CLONE_OFFSET, CLONE_OFFSET + n);
            drop(c);
            once(CLONE_OFFSET, CLONE_OFFSET + n);
            return;
        }
        5 => {
            // mixed element kinds: only ONE side has drop glue (`needs_drop` shortcuts must look at the right type)
            let p: GenericArray<u32, N> = GenericArray::generate(|i| i as u32);
            let z: GenericArray<Tr, N> = p.zip(a, |x, y| { alive(&y); assert!(y.id as u32 == x); y });
            never(0, n);
            drop(z);
        }
        6 => {
            let p: GenericArray<u32, N> = GenericArray::generate(|i| i as u32);
            let z: GenericArray<u32, N> = a.zip(p, |x, y| { alive(&x); assert!(x.id as u32 == y); y });
            once(0, n);
            drop(z);
        }
        7 => {
            // tracked -> plain and plain -> tracked maps
            let m: GenericArray<u32, N> = a.map(|x| { alive(&x); x.id as u32 });
            once(0, n);
            let t: GenericArray<Tr, N> = m.map(|v| Tr::new(v as usize + CLONE_OFFSET));
            never(CLONE_OFFSET, CLONE_OFFSET + n);
            drop(t);
            once(CLONE_OFFSET, CLONE_OFFSET + n);
            return;
        }
        _ => {
            // by-reference forms leave ownership alone
            let s = (&a).fold(0usize, |acc, x| { alive(x); acc + 1 });
            assert!(s == n);
            let m: GenericArray<u8, N> = (&a).map(|x| x.observe());
            never(0, n);
            drop(a);
        }
    }
    once(0, n);
}

/// collect (Ok path), native arrays, Vec / Box / Box<[T]> conversions in both directions
pub fn conversions<T, N: ArrayLength, const R: usize>() {
    let n = N::USIZE;
    let op = any_upto(6);
    kani_cover!(op == 6);
    match op {
        0 => {
            let v: Vec<Tr> = tr_array::<N>(0).into();
            assert!(v.len() == n);
            never(0, n);
            let back = GenericArray::<Tr, N>::try_from(v).ok().unwrap();
            never(0, n);
            drop(back);
        }
        1 => {
            let b: Box<[Tr]> = tr_array::<N>(0).into();
            never(0, n);
            let back: GenericArray<Tr, N> = GenericArray::try_from(b).ok().unwrap();
            never(0, n);
            drop(back);
        }
        2 => {
            let b: Box<GenericArray<Tr, N>> = Box::new(tr_array::<N>(0));
            let v = b.into_vec();
            never(0, n);
            let b2 = GenericArray::<Tr, N>::try_from_vec(v).ok().unwrap();
            never(0, n);
            let s = b2.into_boxed_slice();
            let b3 = GenericArray::<Tr, N>::try_from_boxed_slice(s).ok().unwrap();
            never(0, n);
            drop(b3);
        }
        3 => {
            let a: GenericArray<Tr, N> = (0..n).map(Tr::new).collect();
            never(0, n);
            drop(a);
        }
        4 => {
            let a = GenericArray::<Tr, N>::try_from_iter((0..n).map(Tr::new)).ok().unwrap();
            never(0, n);
            let mut cnt = 0;
            for x in Box::new(a) { alive(&x); cnt += 1; }
            assert!(cnt == n);
        }
        5 => {
            let b = GenericArray::<Tr, N>::try_boxed_from_iter((0..n).map(Tr::new)).ok().unwrap();
            never(0, n);
            drop(b);
        }
        _ => {
            let b: Box<GenericArray<Tr, N>> = Box::<GenericArray<Tr, N>>::generate(Tr::new);
            never(0, n);
            drop(b);
        }
    }
    once(0, n);
}

macro_rules! c03_lattice {
    ($body:ident; $($name:ident: $N:ty, $u:literal;)*) => {
        pub mod $body {
            use super::super::$body;
            use crate::common::*;
            lattice! { $body; $($name: <(), $N, 0> unwind $u;)* }
        }
    };
}

// ---------------------------------------------------------------------------------------------
// sequence operations (type-level lengths: one harness per concrete instantiation)
// ---------------------------------------------------------------------------------------------
macro_rules! lengthen_shorten {
    ($name:ident, $N:ty, $n:literal, $u:literal) => {
        harness! { unwind $u, fn $name() {
            // N -> append -> N+1 -> pop_front -> N -> prepend -> N+1 -> pop_back -> N
            let a = tr_array::<$N>(0);
            let a = a.append(Tr::new(20));
            never(0, $n); never(20, 21);
            let (h, a) = a.pop_front();
            if $n > 0 { assert!(h.id == 0); } else { assert!(h.id == 20); }
            alive(&h);
            never(0, $n); never(20, 21);
            let a = a.prepend(Tr::new(21));
            let (a, l) = a.pop_back();
            alive(&l);
            assert!(l.id == 20 || $n == 0);
            never(0, $n); never(20, 22);
            drop(h); drop(l);
            drop(a);
            once(0, $n); once(20, 22);
        }}
    };
}
macro_rules! split_concat {
    ($name:ident, $N:ty, $n:literal, $K:ty, $k:literal, $u:literal) => {
        harness! { unwind $u, fn $name() {
            let a = tr_array::<$N>(0);
            let (h, t): (GenericArray<Tr, $K>, _) = Split::<Tr, $K>::split(a);
            never(0, $n);
            assert!(h.len() == $k && t.len() == $n - $k);
            if any_bool() {
                drop(h);
                once(0, $k); never($k, $n);
                drop(t);
            } else {
                let whole = Concat::concat(t, h);   // rotated
                never(0, $n);
                assert!(whole.len() == $n);
                if $n > 0 { let i = any_upto($n - 1); alive(&whole[i]); assert!(whole[i].id as usize == (i + $k) % $n); }
                drop(whole);
            }
            once(0, $n);
        }}
    };
}
macro_rules! remove_ops {
    ($name:ident, $N:ty, $n:literal, $u:literal) => {
        harness! { unwind $u, fn $name() {
            let a = tr_array::<$N>(0);
            let i = any_upto($n - 1);
            let (x, rest) = if any_bool() { a.remove(i) } else { a.swap_remove(i) };
            alive(&x);
            assert!(x.id as usize == i);
            never(0, $n);
            assert!(rest.len() == $n - 1);
            if $n > 1 { let j = any_upto($n - 2); alive(&rest[j]); assert!(rest[j].id as usize != i); }
            drop(rest);
            never(i, i + 1);
            once(0, i); once(i + 1, $n);
            drop(x);
            once(0, $n);
        }}
    };
}
macro_rules! flatten_ops {
    ($name:ident, $N:ty, $n:literal, $M:ty, $m:literal, $u:literal) => {
        harness! { unwind $u, fn $name() {
            let nested: GenericArray<GenericArray<Tr, $N>, $M> = GenericArray::generate(|i| tr_array::<$N>(i * $n));
            never(0, $n * $m);
            let flat = nested.flatten();
            never(0, $n * $m);
            assert!(flat.len() == $n * $m);
            if any_bool() {
                let back: GenericArray<GenericArray<Tr, $N>, $M> = flat.unflatten();
                never(0, $n * $m);
                drop(back);
            } else {
                drop(flat);
            }
            once(0, $n * $m);
        }}
    };
}
macro_rules! flatten_only {
    ($name:ident, $N:ty, $n:literal, $M:ty, $m:literal, $u:literal) => {
        harness! { unwind $u, fn $name() {
            // N = 0: the quotient NM / N does not exist at the type level, only flatten applies
            let nested: GenericArray<GenericArray<Tr, $N>, $M> = GenericArray::generate(|i| tr_array::<$N>(i * $n));
            let flat = nested.flatten();
            assert!(flat.len() == $n * $m);
            drop(flat);
            once(0, $n * $m);
        }}
    };
}
/// zero-sized elements with a destructor through every sequence operation: the number of drops is the only trace of such an element, and a
/// "nothing to move for a zero-sized array" shortcut that skips the write of the operands drops them once here and once with the result
macro_rules! zst_seq_ops {
    ($name:ident, $N:ty, $n:literal, $K:ty, $k:literal, $M:ty, $m:literal, $u:literal) => {
        harness! { unwind $u, fn $name() {
            let d0 = zdrops();
            let a = trz_array::<$N>();
            let a = a.append(TrZ::new());
            assert!(zdrops() == d0 && zlive() == $n + 1, "append dropped or conjured zero-sized elements");
            let a = a.prepend(TrZ::new());
            assert!(zdrops() == d0 && zlive() == $n + 2, "prepend dropped or conjured zero-sized elements");
            let (h, a) = a.pop_front();
            let (a, l) = a.pop_back();
            assert!(zdrops() == d0 && zlive() == $n + 2, "pop_front / pop_back dropped or conjured zero-sized elements");
            drop(h); drop(l);
            assert!(zdrops() == d0 + 2 && zlive() == $n);
            let (x, y): (GenericArray<TrZ, $K>, _) = Split::<TrZ, $K>::split(a);
            assert!(zdrops() == d0 + 2 && zlive() == $n && x.len() == $k, "split dropped or conjured zero-sized elements");
            let w = Concat::concat(y, x);
            assert!(zdrops() == d0 + 2 && zlive() == $n && w.len() == $n, "concat dropped or conjured zero-sized elements");
            let w = w.append(TrZ::new());
            let i = any_upto($n);
            let (r, rest) = if any_bool() { w.remove(i) } else { w.swap_remove(i) };
            assert!(zdrops() == d0 + 2 && zlive() == $n + 1 && rest.len() == $n, "remove / swap_remove dropped or conjured zero-sized elements");
            drop(r);
            drop(rest);
            assert!(zdrops() == d0 + 3 + $n && zlive() == 0);
            let nested: GenericArray<GenericArray<TrZ, $N>, $M> = GenericArray::generate(|_| trz_array::<$N>());
            let flat = nested.flatten();
            assert!(zdrops() == d0 + 3 + $n && zlive() == $n * $m && flat.len() == $n * $m, "flatten dropped or conjured zero-sized elements");
            let back: GenericArray<GenericArray<TrZ, $N>, $M> = flat.unflatten();
            assert!(zdrops() == d0 + 3 + $n && zlive() == $n * $m, "unflatten dropped or conjured zero-sized elements");
            drop(back);
            assert!(zdrops() == d0 + 3 + $n + $n * $m && zlive() == 0);
            // ... and through the heap conversions (a zero-sized element has no bytes to copy and no block: lengths and drop counts are all there is)
            let d1 = zdrops();
            let v: Vec<TrZ> = trz_array::<$N>().into();
            assert!(v.len() == $n && zlive() == $n && zdrops() == d1, "Vec::from(array) dropped or conjured zero-sized elements");
            let back = GenericArray::<TrZ, $N>::try_from(v).ok().unwrap();
            let bs: Box<[TrZ]> = back.into();
            assert!(bs.len() == $n && zlive() == $n && zdrops() == d1, "Box<[T]>::from(array) dropped or conjured zero-sized elements");
            let b = GenericArray::<TrZ, $N>::try_from_boxed_slice(bs).ok().unwrap();
            let v2 = b.into_vec();
            assert!(v2.len() == $n && zlive() == $n && zdrops() == d1, "into_vec dropped or conjured zero-sized elements");
            drop(v2);
            assert!(zdrops() == d1 + $n && zlive() == 0);
        }}
    };
}
macro_rules! native_ops {
    ($name:ident, $N:ty, $n:literal, ($($x:ident),*), $u:literal) => {
        harness! { unwind $u, fn $name() {
            let mut c = 0;
            let raw: [Tr; $n] = core::array::from_fn(|i| Tr::new(i));
            let g: GenericArray<Tr, $N> = GenericArray::from_array(raw);
            never(0, $n);
            let raw2: [Tr; $n] = g.into_array();
            never(0, $n);
            let g2: GenericArray<Tr, $N> = raw2.into();
            let t: ($(native_ops!(@ty $x),)*) = g2.into();
            never(0, $n);
            let g3: GenericArray<Tr, $N> = t.into();
            never(0, $n);
            drop(g3);
            once(0, $n);
        }}
    };
    (@ty $x:ident) => { Tr };
}

/// depth-3/4 chains over a type-closed family: a sanity check of the composition argument, not the claim itself
pub mod chains {
    use crate::common::*;
    use super::{alive, never, once};
    harness! { unwind 9, fn lengthen_split_concat_iter() {
        let a = tr_array::<U3>(0).append(Tr::new(3));
        let (h, t): (GenericArray<Tr, U1>, GenericArray<Tr, U3>) = Split::<Tr, U1>::split(a);
        let w: GenericArray<Tr, U4> = Concat::concat(t, h);          // ids 1,2,3,0
        never(0, 4);
        let mut it = w.into_iter();
        let k = any_upto(5);
        let x = it.nth(k);
        let c = it.clone();
        let v: Vec<Tr> = it.collect();
        if let Some(x) = &x { alive(x); assert!(x.id as usize == (k + 1) % 4); }
        assert!(v.len() == if k < 4 { 3 - k } else { 0 });
        drop(x); drop(v);
        once(0, 4);
        let j = any_upto(3);
        let pos = (j + 3) % 4;                                         // position of id j in the rotated order
        assert!(drops(CLONE_OFFSET + j) == 0);
        drop(c);
        assert!(drops(CLONE_OFFSET + j) == if pos > k { 1 } else { 0 }, "clone of a remaining element not dropped exactly once / clone of a consumed element exists");
        kani_cover!(k == 2);
    }}
    harness! { unwind 9, fn map_zip_pop_remove() {
        let a = tr_array::<U4>(0);
        let b: GenericArray<Tr, U4> = a.map(|x| { alive(&x); Tr::new(x.id as usize + CLONE_OFFSET) });   // ids 16..20
        once(0, 4);
        let c = tr_array::<U4>(32);
        let z: GenericArray<Tr, U4> = b.zip(c, |x, y| { alive(&x); alive(&y); Tr::new(x.id as usize - CLONE_OFFSET + 8) }); // ids 8..12
        once(CLONE_OFFSET, CLONE_OFFSET + 4); once(32, 36); never(8, 12);
        let (first, rest) = z.pop_front();
        let i = any_upto(2);
        let (x, rest2) = rest.remove(i);
        alive(&first); alive(&x);
        assert!(first.id == 8 && x.id as usize == 9 + i);
        let arr: [Tr; 2] = rest2.into_array();
        never(8, 12);
        drop(arr); drop(first); drop(x);
        once(8, 12);
        kani_cover!(i == 2);
    }}
}
pub mod q {
    c03_lattice! { iter_op; n0: U0, 3; n1: U1, 4; n2: U2, 5; n3: U3, 6; n4: U4, 7; }
    c03_lattice! { iter_op_zst; n0: U0, 3; n3: U3, 6; n4: U4, 7; }
    c03_lattice! { functional; n0: U0, 3; n1: U1, 4; n3: U3, 6; n4: U4, 7; }
    c03_lattice! { conversions; n0: U0, 3; n1: U1, 4; n3: U3, 6; }
    pub mod seq {
        use crate::common::*;
        use super::super::{alive, never, once};
        lengthen_shorten!(ls0, U0, 0, 4);
        lengthen_shorten!(ls1, U1, 1, 5);
        lengthen_shorten!(ls4, U4, 4, 8);
        split_concat!(sc_0_0, U0, 0, U0, 0, 4);
        split_concat!(sc_3_0, U3, 3, U0, 0, 7);
        split_concat!(sc_3_1, U3, 3, U1, 1, 7);
        split_concat!(sc_3_3, U3, 3, U3, 3, 7);
        split_concat!(sc_5_2, U5, 5, U2, 2, 9);
        remove_ops!(rm1, U1, 1, 5);
        remove_ops!(rm2, U2, 2, 6);
        remove_ops!(rm4, U4, 4, 8);
        remove_ops!(rm7, U7, 7, 11);
        flatten_only!(fl_0_0, U0, 0, U0, 0, 4);
        flatten_ops!(fl_2_0, U2, 2, U0, 0, 4);
        flatten_ops!(fl_1_1, U1, 1, U1, 1, 5);
        flatten_ops!(fl_2_3, U2, 2, U3, 3, 10);
        flatten_ops!(fl_3_2, U3, 3, U2, 2, 10);
        flatten_ops!(fl_3_1, U3, 3, U1, 1, 7);
        zst_seq_ops!(zst_3, U3, 3, U1, 1, U2, 2, 12);
        zst_seq_ops!(zst_1, U1, 1, U1, 1, U3, 3, 10);
        native_ops!(nat1, U1, 1, (a), 5);
        native_ops!(nat3, U3, 3, (a, b, c), 7);
    }
}
pub mod t {
    c03_lattice! { iter_op; n5: U5, 8; n6: U6, 9; n7: U7, 10; n8: U8, 11; }
    c03_lattice! { iter_op_zst; n1: U1, 4; n2: U2, 5; n5: U5, 8; n8: U8, 11; }
    c03_lattice! { functional; n2: U2, 5; n5: U5, 8; n8: U8, 11; }
    c03_lattice! { conversions; n2: U2, 5; n4: U4, 7; n5: U5, 8; }
    pub mod seq {
        use crate::common::*;
        use super::super::{alive, never, once};
        lengthen_shorten!(ls2, U2, 2, 6);
        lengthen_shorten!(ls3, U3, 3, 7);
        lengthen_shorten!(ls7, U7, 7, 11);
        split_concat!(sc_1_0, U1, 1, U0, 0, 5);
        split_concat!(sc_1_1, U1, 1, U1, 1, 5);
        split_concat!(sc_2_1, U2, 2, U1, 1, 6);
        split_concat!(sc_4_2, U4, 4, U2, 2, 8);
        split_concat!(sc_4_3, U4, 4, U3, 3, 8);
        split_concat!(sc_8_3, U8, 8, U3, 3, 12);
        split_concat!(sc_8_8, U8, 8, U8, 8, 12);
        split_concat!(sc_7_4, U7, 7, U4, 4, 11);
        remove_ops!(rm3, U3, 3, 7);
        remove_ops!(rm5, U5, 5, 9);
        remove_ops!(rm8, U8, 8, 12);
        flatten_only!(fl_0_3, U0, 0, U3, 3, 7);
        flatten_ops!(fl_5_2, U5, 5, U2, 2, 14);
        flatten_ops!(fl_6_1, U6, 6, U1, 1, 10);
        flatten_ops!(fl_2_2, U2, 2, U2, 2, 8);
        flatten_ops!(fl_4_2, U4, 4, U2, 2, 12);
        flatten_ops!(fl_1_4, U1, 1, U4, 4, 8);
        zst_seq_ops!(zst_4, U4, 4, U2, 2, U2, 2, 14);
        zst_seq_ops!(zst_2, U2, 2, U0, 0, U1, 1, 10);
        native_ops!(nat2, U2, 2, (a, b), 6);
        native_ops!(nat5, U5, 5, (a, b, c, d, e), 9);
        native_ops!(nat12, U12, 12, (a, b, c, d, e, f, g, h, i, j, k, l), 16);
    }
}
