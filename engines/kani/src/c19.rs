//! C19 - zeroize and const-default reach every one of the N elements.
use crate::common::*;
use const_default::ConstDefault;
use zeroize::Zeroize;

/// a type whose zero value and default value differ per field
#[derive(Clone, Copy, PartialEq, Eq, Debug)]
pub struct ZD {
    pub a: u8,
    pub b: u16,
}
impl Zeroize for ZD {
    fn zeroize(&mut self) {
        self.a.zeroize();
        self.b.zeroize();
    }
}
impl ConstDefault for ZD {
    const DEFAULT: ZD = ZD { a: 7, b: 0x0903 };
}
impl Default for ZD {
    fn default() -> ZD { ZD { a: 7, b: 0x0903 } }
}

/// a type whose zeroized value is NOT the all-zero bit pattern (wiping bytes instead of calling `zeroize()` is observable)
#[derive(Clone, Copy, PartialEq, Eq, Debug)]
pub struct Flagged {
    pub key: u8,
    pub retired: bool,
}
impl Zeroize for Flagged {
    fn zeroize(&mut self) {
        self.key.zeroize();
        self.retired = true;
    }
}
pub trait ZElem: Zeroize + Sized {
    fn sym() -> Self;
    fn is_zeroized(&self) -> bool;
}
impl ZElem for u8 { fn sym() -> u8 { any_u8() } fn is_zeroized(&self) -> bool { *self == 0 } }
impl ZElem for u64 { fn sym() -> u64 { any_u64() } fn is_zeroized(&self) -> bool { *self == 0 } }
impl ZElem for [u8; 3] { fn sym() -> Self { [any_u8(), any_u8(), any_u8()] } fn is_zeroized(&self) -> bool { self[0] == 0 && self[1] == 0 && self[2] == 0 } }
impl ZElem for GenericArray<u8, U2> { fn sym() -> Self { GenericArray::from_array([any_u8(), any_u8()]) } fn is_zeroized(&self) -> bool { self[0] == 0 && self[1] == 0 } }
impl ZElem for Flagged { fn sym() -> Flagged { Flagged { key: any_u8(), retired: any_bool() } } fn is_zeroized(&self) -> bool { self.key == 0 && self.retired } }
impl ZElem for ZD { fn sym() -> ZD { ZD { a: any_u8(), b: any_u16() } } fn is_zeroized(&self) -> bool { self.a == 0 && self.b == 0 } }

pub fn zeroizes<T: ZElem, N: ArrayLength, const R: usize>() {
    let n = N::USIZE;
    let mut a: GenericArray<T, N> = GenericArray::generate(|_| T::sym());
    a.zeroize();
    if n > 0 {
        let i = any_upto(n - 1);
        assert!(a[i].is_zeroized(), "zeroize() skipped an element");
    }
    kani_cover!(n == 0 || !a[n - 1].is_zeroized() || true);
}

/// method-call syntax on arrays of *concrete* primitive element types: what `array.zeroize()` resolves to at a caller's site (an
/// inherent method or a more specific impl would shadow the trait impl there, and only there)
pub fn zeroizes_concrete<T, N: ArrayLength, const R: usize>() {
    let n = N::USIZE;
    let i = if n > 0 { any_upto(n - 1) } else { 0 };
    match any_upto(2) {
        0 => { let mut a: GenericArray<u64, N> = GenericArray::generate(|_| any_u64()); a.zeroize(); assert!(n == 0 || a[i] == 0, "zeroize() skipped an element (u64, method syntax)"); }
        1 => { let mut a: GenericArray<u16, N> = GenericArray::generate(|_| any_u16()); a.zeroize(); assert!(n == 0 || a[i] == 0, "zeroize() skipped an element (u16, method syntax)"); }
        _ => { let mut a: GenericArray<u8, N> = GenericArray::generate(|_| any_u8()); a.as_mut_slice().zeroize(); assert!(n == 0 || a[i] == 0, "zeroize() through the slice view skipped an element"); }
    }
    kani_cover!(n > 0);
}

/// an element whose zeroized value depends on the element itself (`zeroize()` wipes the key and keeps the slot id, like `#[zeroize(skip)]`):
/// "every element equals ITS zeroized value" - replicating one wiped element over the others is observable
#[derive(Clone, Copy, PartialEq, Eq, Debug)]
pub struct Keyed {
    pub id: u8,
    pub key: u16,
}
impl Zeroize for Keyed {
    fn zeroize(&mut self) { self.key.zeroize(); }
}
pub fn zeroizes_keyed<T, N: ArrayLength, const R: usize>() {
    let n = N::USIZE;
    let mut a: GenericArray<Keyed, N> = GenericArray::generate(|_| Keyed { id: any_u8(), key: any_u16() });
    let ids: GenericArray<u8, N> = GenericArray::generate(|i| a[i].id);
    a.zeroize();
    let i = if n > 0 { any_upto(n - 1) } else { 0 };
    if n > 0 {
        assert!(a[i].key == 0, "zeroize() skipped an element");
        assert!(a[i].id == ids[i], "zeroize() left an element different from its own zeroized value (the part zeroize() keeps was overwritten)");
    }
    kani_cover!(n < 2 || (i == n - 1 && ids[i] != ids[0]));
}

pub trait DElem: ConstDefault + Default + Sized { fn same(&self, o: &Self) -> bool; }
impl DElem for u8 { fn same(&self, o: &u8) -> bool { self == o } }
impl DElem for u64 { fn same(&self, o: &u64) -> bool { self == o } }
impl DElem for ZD { fn same(&self, o: &ZD) -> bool { self.a == o.a && self.b == o.b } }

pub fn const_defaults<T: DElem, N: ArrayLength, const R: usize>()
where
    GenericArray<T, N>: ConstDefault,
{
    let n = N::USIZE;
    let a: GenericArray<T, N> = GenericArray::<T, N>::const_default();
    let b: GenericArray<T, N> = <GenericArray<T, N> as ConstDefault>::DEFAULT;
    let d: GenericArray<T, N> = Default::default();
    assert!(a.len() == n);
    if n > 0 {
        let i = any_upto(n - 1);
        assert!(a[i].same(&T::DEFAULT), "const_default() element differs from the element's constant default");
        assert!(b[i].same(&T::DEFAULT));
        assert!(a[i].same(&d[i]), "const default differs from Default::default()");
    }
    kani_cover!(true);
}
/// large lengths (1024-element block boundaries): the constant default against the element's constant default only
pub fn const_defaults_big<T: DElem, N: ArrayLength, const R: usize>()
where
    GenericArray<T, N>: ConstDefault,
{
    let n = N::USIZE;
    let a: GenericArray<T, N> = GenericArray::<T, N>::const_default();
    assert!(a.len() == n);
    let i = any_upto(n - 1);
    assert!(a[i].same(&T::DEFAULT), "const_default() element differs from the element's constant default");
    kani_cover!(i == n - 1);
    kani_cover!(i == n - 1024);
}
/// nested arrays: the default of GenericArray<GenericArray<u8,U2>,N>
pub fn const_defaults_nested<T, N: ArrayLength, const R: usize>()
where
    GenericArray<GenericArray<ZD, U2>, N>: ConstDefault,
{
    let n = N::USIZE;
    let a = GenericArray::<GenericArray<ZD, U2>, N>::const_default();
    if n > 0 {
        let i = any_upto(n - 1);
        let j = any_upto(1);
        assert!(a[i][j].same(&ZD::DEFAULT));
    }
}

/// `zeroize::optimization_barrier` is an inline-asm compiler barrier (`asm!("# {}")`, no semantic effect);
/// Kani cannot translate inline asm, so it is stubbed with an empty body.
pub fn barrier_stub<T: ?Sized>(_val: &T) {}
macro_rules! c19_lattice_z {
    ($body:ident; $($name:ident: $T:ty, $N:ty, $u:literal;)*) => {
        pub mod $body {
            use super::super::*;
            lattice_attr! { [kani::stub(zeroize::optimization_barrier, barrier_stub)] $body; $($name: <$T, $N, 0> unwind $u;)* }
        }
    };
}
macro_rules! c19_lattice {
    ($body:ident; $($name:ident: $T:ty, $N:ty, $u:literal;)*) => {
        pub mod $body {
            use super::super::*;
            lattice! { $body; $($name: <$T, $N, 0> unwind $u;)* }
        }
    };
}
pub mod q {
    c19_lattice_z! { zeroizes;
        u8_n0: u8, U0, 3; u8_n1: u8, U1, 4; u8_n2: u8, U2, 5; u8_n3: u8, U3, 6; u8_n4: u8, U4, 7; u8_n5: u8, U5, 8; u8_n6: u8, U6, 9; u8_n7: u8, U7, 10; u8_n8: u8, U8, 11;
        u64_n5: u64, U5, 8; b3_n3: [u8; 3], U3, 6; nested_n3: GenericArray<u8, U2>, U3, 6; zd_n0: ZD, U0, 3; zd_n5: ZD, U5, 8; zd_n6: ZD, U6, 9; flag_n1: Flagged, U1, 4; flag_n4: Flagged, U4, 7; flag_n5: Flagged, U5, 8;
    }
    c19_lattice_z! { zeroizes_concrete; n1: (), U1, 4; n3: (), U3, 6; n5: (), U5, 8; }
    c19_lattice_z! { zeroizes_keyed; n0: (), U0, 3; n1: (), U1, 4; n2: (), U2, 5; n3: (), U3, 6; n5: (), U5, 8; n8: (), U8, 11; }
    c19_lattice! { const_defaults;
        zd_n0: ZD, U0, 3; zd_n1: ZD, U1, 4; zd_n2: ZD, U2, 5; zd_n3: ZD, U3, 6; zd_n4: ZD, U4, 7; zd_n5: ZD, U5, 8; zd_n6: ZD, U6, 9; zd_n7: ZD, U7, 10; zd_n8: ZD, U8, 11;
        u8_n5: u8, U5, 8; u64_n6: u64, U6, 9;
    }
    c19_lattice! { const_defaults_nested; n0: (), U0, 3; n3: (), U3, 6; }
    c19_lattice! { const_defaults_big; zd_n1024: ZD, U1024, 3; zd_n2048: ZD, U2048, 3; zd_n4096: ZD, U4096, 3; }
}
pub mod t {
    c19_lattice_z! { zeroizes;
        zd_n9: ZD, U9, 12; zd_n10: ZD, U10, 13; zd_n11: ZD, U11, 14; zd_n12: ZD, U12, 15; zd_n13: ZD, U13, 16; zd_n14: ZD, U14, 17; zd_n15: ZD, U15, 18; zd_n16: ZD, U16, 19;
        zd_n17: ZD, U17, 20; zd_n21: ZD, U21, 24; zd_n26: ZD, U26, 29; zd_n31: ZD, U31, 34; zd_n32: ZD, U32, 35; zd_n33: ZD, U33, 36; zd_n42: ZD, U42, 45; zd_n63: ZD, U63, 66; zd_n64: ZD, U64, 67;
        u8_n127: u8, U127, 130; u8_n128: u8, U128, 131; u8_n255: u8, U255, 258; u8_n256: u8, U256, 259;
        u64_n8: u64, U8, 11; b3_n7: [u8; 3], U7, 10; nested_n6: GenericArray<u8, U2>, U6, 9;
    }
    c19_lattice_z! { zeroizes_keyed; n4: (), U4, 7; n6: (), U6, 9; n7: (), U7, 10; n16: (), U16, 19; n17: (), U17, 20; n33: (), U33, 36; n64: (), U64, 67; }
    c19_lattice! { const_defaults;
        zd_n9: ZD, U9, 12; zd_n10: ZD, U10, 13; zd_n11: ZD, U11, 14; zd_n12: ZD, U12, 15; zd_n13: ZD, U13, 16; zd_n14: ZD, U14, 17; zd_n15: ZD, U15, 18; zd_n16: ZD, U16, 19;
        zd_n17: ZD, U17, 20; zd_n21: ZD, U21, 24; zd_n26: ZD, U26, 29; zd_n31: ZD, U31, 34; zd_n32: ZD, U32, 35; zd_n33: ZD, U33, 36; zd_n42: ZD, U42, 45; zd_n63: ZD, U63, 66; zd_n64: ZD, U64, 67;
        zd_n127: ZD, U127, 130; zd_n128: ZD, U128, 131; zd_n255: ZD, U255, 258; zd_n256: ZD, U256, 259;
    }
    c19_lattice! { const_defaults_nested; n1: (), U1, 4; n6: (), U6, 9; }
}
