//! C06 - the by-value iterator is a double-ended, exact-size, fused queue.
//!
//! Inductive step: from an *arbitrary* reachable position (f `next` calls and b `next_back` calls, both
//! symbolic) apply ONE symbolically chosen operation with a symbolic argument and compare the result and
//! the complete post-state with a reference deque model `(front, back)` over element ids.  Because the
//! post-state is checked to be exactly the model's post-state, one step from every state covers every
//! finite operation sequence.
use crate::common::*;

/// element i of the array is the id i
fn ids<N: ArrayLength>() -> GenericArray<u8, N> {
    GenericArray::generate(|i| i as u8)
}

/// post-state equals the model state (mf, mb): len, size_hint, as_slice contents, and - if exhausted - fusedness
fn check_state<N: ArrayLength>(it: &mut GenericArrayIter<u8, N>, mf: usize, mb: usize) {
    let len = mb - mf;
    assert!(it.len() == len, "len() differs from the number of elements still to come");
    assert!(it.size_hint() == (len, Some(len)));
    assert!(it.as_slice().len() == len);
    if len > 0 {
        let j = any_upto(len - 1);
        assert!(it.as_slice()[j] as usize == mf + j, "remaining elements differ from the model");
    } else {
        assert!(it.next().is_none());
        assert!(it.next_back().is_none());
        assert!(it.next().is_none(), "not fused");
        assert!(it.len() == 0);
    }
}

pub fn step<T, N: ArrayLength, const R: usize>() {
    let n = N::USIZE;
    let mut it = ids::<N>().into_iter();
    let f = any_upto(n);
    let b = any_upto(n);
    assume(f + b <= n);
    let mut k = 0;
    while k < f {
        let x = it.next();
        assert!(x == Some(k as u8));
        k += 1;
    }
    k = 0;
    while k < b {
        let x = it.next_back();
        assert!(x == Some((n - 1 - k) as u8));
        k += 1;
    }
    let (mut mf, mut mb) = (f, n - b);
    let len = mb - mf;
    let op = any_upto(12);
    let arg = any_usize(); // unconstrained: every skip count, including usize::MAX
    kani_cover!(f + b == n, "exhausted position reached");
    kani_cover!(n == 0 || (f > 0 && b > 0) || n < 2, "interior position reached");
    kani_cover!(op == 2 && arg < len || n == 0, "nth inside the remaining range");
    kani_cover!(op == 2 && arg > len + 1, "nth beyond the remaining range");
    kani_cover!(op == 11);
    kani_cover!(op == 12);
    match op {
        0 => {
            let r = it.next();
            if len > 0 {
                assert!(r == Some(mf as u8));
                mf += 1;
            } else {
                assert!(r.is_none());
            }
            check_state(&mut it, mf, mb);
        }
        1 => {
            let r = it.next_back();
            if len > 0 {
                assert!(r == Some((mb - 1) as u8));
                mb -= 1;
            } else {
                assert!(r.is_none());
            }
            check_state(&mut it, mf, mb);
        }
        2 => {
            let r = it.nth(arg);
            if arg < len {
                assert!(r == Some((mf + arg) as u8), "nth returned the wrong element");
                mf += arg + 1;
            } else {
                assert!(r.is_none(), "nth past the end must return None");
                mf = mb;
            }
            check_state(&mut it, mf, mb);
        }
        3 => {
            let r = it.nth_back(arg);
            if arg < len {
                assert!(r == Some((mb - 1 - arg) as u8), "nth_back returned the wrong element");
                mb -= arg + 1;
            } else {
                assert!(r.is_none(), "nth_back past the end must return None");
                mb = mf;
            }
            check_state(&mut it, mf, mb);
        }
        4 => {
            // as_mut_slice: write-through, then the written value is what the iterator yields
            let v = any_u8();
            if len > 0 {
                let j = any_upto(len - 1);
                assert!(it.as_mut_slice().len() == len);
                it.as_mut_slice()[j] = v;
                assert!(it.as_slice()[j] == v);
                let r = it.nth(j);
                assert!(r == Some(v));
            } else {
                assert!(it.as_mut_slice().is_empty());
            }
        }
        5 => {
            // clone: same remaining elements, original undisturbed
            let mut c = it.clone();
            check_state(&mut it, mf, mb);
            assert!(c.len() == len);
            if len > 0 {
                let j = any_upto(len - 1);
                assert!(c.as_slice()[j] as usize == mf + j, "clone differs from the original's remaining elements");
                let back = c.next_back();
                assert!(back == Some((mb - 1) as u8));
                let front = c.next();
                assert!(len == 1 && front.is_none() || front == Some(mf as u8));
            } else {
                assert!(c.next().is_none() && c.next_back().is_none());
            }
            drop(c);
            check_state(&mut it, mf, mb);
        }
        6 => {
            // fold visits the remaining elements front to back
            let mut cnt = 0usize;
            let mut ok = true;
            let acc = it.fold(7u32, |acc, x| {
                ok &= x as usize == mf + cnt;
                cnt += 1;
                acc.wrapping_mul(31).wrapping_add(x as u32)
            });
            assert!(ok && cnt == len, "fold order or count wrong");
            let mut m = 7u32;
            let mut j = mf;
            while j < mb {
                m = m.wrapping_mul(31).wrapping_add(j as u32);
                j += 1;
            }
            assert!(acc == m);
        }
        7 => {
            let mut cnt = 0usize;
            let mut ok = true;
            let acc = it.rfold(7u32, |acc, x| {
                ok &= x as usize + cnt + 1 == mb;
                cnt += 1;
                acc.wrapping_mul(31).wrapping_add(x as u32)
            });
            assert!(ok && cnt == len, "rfold order or count wrong");
            let mut m = 7u32;
            let mut j = mb;
            while j > mf {
                j -= 1;
                m = m.wrapping_mul(31).wrapping_add(j as u32);
            }
            assert!(acc == m);
        }
        8 => {
            assert!(it.count() == len, "count() differs from the number of remaining elements");
        }
        9 => {
            let r = it.last();
            assert!(if len > 0 { r == Some((mb - 1) as u8) } else { r.is_none() });
        }
        10 => {
            // ExactSizeIterator / size_hint agree and nothing else changes
            let l1 = it.len();
            let (lo, hi) = it.size_hint();
            assert!(l1 == len && lo == len && hi == Some(len));
            check_state(&mut it, mf, mb);
        }
        12 => {
            // clone_from (the `&mut` receiver form of cloning; the trait default is `*self = source.clone()`): afterwards the receiver
            // yields exactly what the source still yields, whatever position the receiver was at, and the source is untouched
            let mut src = ids::<N>().into_iter();
            let (f2, b2) = (any_upto(n), any_upto(n));
            assume(f2 + b2 <= n);
            let mut k = 0;
            while k < f2 { let _ = src.next(); k += 1; }
            k = 0;
            while k < b2 { let _ = src.next_back(); k += 1; }
            kani_cover!(n < 2 || (f > 0 && len > 0 && (n - b2 - f2) > len), "receiver with a consumed front, source longer than the receiver");
            it.clone_from(&src);
            check_state(&mut src, f2, n - b2);
            check_state(&mut it, f2, n - b2);
        }
        _ => {
            // two steps from the exhausted side: next after next_back exhaustion etc.
            let r1 = it.next_back();
            let r2 = it.next();
            if len >= 2 {
                assert!(r1 == Some((mb - 1) as u8) && r2 == Some(mf as u8));
                mf += 1;
                mb -= 1;
            } else if len == 1 {
                assert!(r1 == Some(mf as u8) && r2.is_none(), "front and back consumption overlap");
                mb -= 1;
            } else {
                assert!(r1.is_none() && r2.is_none());
            }
            check_state(&mut it, mf, mb);
        }
    }
}

/// A short direct sequence (<= 4 symbolic operations) as a sanity check of the inductive argument.
pub fn seq4<T, N: ArrayLength, const R: usize>() {
    let n = N::USIZE;
    let mut it = ids::<N>().into_iter();
    let (mut mf, mut mb) = (0usize, n);
    let mut s = 0;
    while s < 4 {
        let op = any_upto(3);
        let arg = any_upto(n + 2);
        let len = mb - mf;
        match op {
            0 => {
                let r = it.next();
                if len > 0 { assert!(r == Some(mf as u8)); mf += 1; } else { assert!(r.is_none()); }
            }
            1 => {
                let r = it.next_back();
                if len > 0 { assert!(r == Some((mb - 1) as u8)); mb -= 1; } else { assert!(r.is_none()); }
            }
            2 => {
                let r = it.nth(arg);
                if arg < len { assert!(r == Some((mf + arg) as u8)); mf += arg + 1; } else { assert!(r.is_none()); mf = mb; }
            }
            _ => {
                let r = it.nth_back(arg);
                if arg < len { assert!(r == Some((mb - 1 - arg) as u8)); mb -= arg + 1; } else { assert!(r.is_none()); mb = mf; }
            }
        }
        assert!(it.len() == mb - mf);
        s += 1;
    }
    check_state(&mut it, mf, mb);
}

/// Debug shows exactly the remaining elements: `GenericArrayIter(` + Debug of the remaining slice + `)`.
/// Driven through a directly constructed Formatter (no format!), non-alternate flags. The position is
/// concrete per harness (front = R / 16, back = R % 16 - symbolic positions make CBMC run out of memory
/// inside core::fmt); the element values, hence the output bytes, are symbolic.
pub fn debug_fmt<T, N: ArrayLength, const R: usize>() {
    use core::fmt::Write;
    let n = N::USIZE;
    let vals: [u8; 4] = [any_u8(), any_u8(), any_u8(), any_u8()];
    let a: GenericArray<Tok, N> = GenericArray::generate(|i| Tok(vals[i]));
    let copy: GenericArray<Tok, N> = GenericArray::generate(|i| Tok(vals[i]));
    let mut it = a.into_iter();
    let (f, b) = (R / 16, R % 16);
    assert!(f + b <= n);
    let mut k = 0;
    while k < f { it.next(); k += 1; }
    k = 0;
    while k < b { it.next_back(); k += 1; }
    let mut s1 = Sink::new();
    let mut s2 = Sink::new();
    {
        let mut fm = core::fmt::FormattingOptions::new().create_formatter(&mut s1);
        assert!(core::fmt::Debug::fmt(&it, &mut fm).is_ok());
    }
    {
        let model: &[Tok] = &copy[f..n - b];
        let mut fm = core::fmt::FormattingOptions::new().create_formatter(&mut s2);
        fm.write_str("GenericArrayIter(").unwrap();
        assert!(core::fmt::Debug::fmt(model, &mut fm).is_ok());
        fm.write_str(")").unwrap();
    }
    assert!(s1.len == s2.len, "Debug output length differs");
    let j = any_upto(SINKCAP - 1);
    assert!(j >= s1.len || s1.buf[j] == s2.buf[j], "Debug output differs from the remaining elements");
    kani_cover!(s1.len > 19 || n == f + b);
}

/// `clone()` clones the ORIGINAL's remaining elements: `T::clone` is called on element i of the original's remaining slice (an element type
/// with interior state, or one that looks at its own address, can tell a bitwise duplicate from the original)
static mut CLONED_FROM: [usize; 8] = [0; 8];
static mut CLONES: usize = 0;
pub struct AddrRec(pub u8);
impl Clone for AddrRec {
    fn clone(&self) -> AddrRec {
        unsafe { if CLONES < 8 { CLONED_FROM[CLONES] = self as *const AddrRec as usize; } CLONES += 1; }
        AddrRec(self.0)
    }
}
pub fn clone_sees_original<T, N: ArrayLength, const R: usize>() {
    let n = N::USIZE;
    let mut it = GenericArray::<AddrRec, N>::generate(|i| AddrRec(i as u8)).into_iter();
    let f = any_upto(n);
    let b = any_upto(n);
    assume(f + b <= n);
    let mut k = 0;
    while k < f { core::mem::forget(it.next()); k += 1; }
    k = 0;
    while k < b { core::mem::forget(it.next_back()); k += 1; }
    let len = n - f - b;
    unsafe { CLONES = 0 };
    let c = it.clone();
    assert!(unsafe { CLONES } == len, "clone() did not call T::clone once per remaining element");
    assert!(c.len() == len && it.len() == len);
    if len > 0 {
        let i = any_upto(len - 1);
        let want = &it.as_slice()[i] as *const AddrRec as usize;
        assert!(unsafe { CLONED_FROM[i] } == want, "the i-th T::clone call was not made on the original's i-th remaining element");
        assert!(c.as_slice()[i].0 as usize == f + i);
    }
    kani_cover!(len == n || n == 0);
}

/// zero-sized elements: the queue is its *length* only; every method must still consume / visit exactly as many items as a queue would
pub fn zst_queue<T, N: ArrayLength, const R: usize>() {
    let n = N::USIZE;
    let mut it = GenericArray::<(), N>::generate(|_| ()).into_iter();
    let f = any_upto(n);
    let b = any_upto(n);
    assume(f + b <= n);
    let mut k = 0;
    while k < f { assert!(it.next().is_some()); k += 1; }
    k = 0;
    while k < b { assert!(it.next_back().is_some()); k += 1; }
    let len = n - f - b;
    assert!(it.len() == len);
    let op = any_upto(8);
    let arg = any_usize();
    kani_cover!(op == 8 && len > 0 || n == 0);
    kani_cover!(op == 2 && arg < len || n == 0);
    match op {
        0 => { assert!(it.next().is_some() == (len > 0)); assert!(it.len() == len.saturating_sub(1)); }
        1 => { assert!(it.next_back().is_some() == (len > 0)); assert!(it.len() == len.saturating_sub(1)); }
        2 => { let r = it.nth(arg); assert!(r.is_some() == (arg < len)); assert!(it.len() == if arg < len { len - arg - 1 } else { 0 }); }
        3 => { let r = it.nth_back(arg); assert!(r.is_some() == (arg < len)); assert!(it.len() == if arg < len { len - arg - 1 } else { 0 }); }
        4 => { assert!(it.size_hint() == (len, Some(len))); assert!(it.as_slice().len() == len); }
        5 => { assert!(it.count() == len); }
        6 => { assert!(it.last().is_some() == (len > 0)); }
        7 => { let c = it.fold(0usize, |acc, _| acc + 1); assert!(c == len, "fold over zero-sized elements did not visit every remaining element"); }
        _ => { let c = it.clone().rfold(0usize, |acc, _| acc + 1); assert!(c == len, "rfold over zero-sized elements did not visit every remaining element"); assert!(it.len() == len); }
    }
}

pub mod q {
    pub mod clone_sees_original {
        use super::super::clone_sees_original;
        use crate::common::*;
        lattice! { clone_sees_original;
            n1: <(), U1, 0> unwind 4;
            n3: <(), U3, 0> unwind 6;
        }
    }
    pub mod zst_queue {
        use super::super::zst_queue;
        use crate::common::*;
        lattice! { zst_queue;
            n0: <(), U0, 0> unwind 3;
            n1: <(), U1, 0> unwind 4;
            n3: <(), U3, 0> unwind 6;
        }
    }
    pub mod step {
        use super::super::step;
        use crate::common::*;
        lattice! { step;
            n0: <(), U0, 0> unwind 3;
            n1: <(), U1, 0> unwind 4;
            n2: <(), U2, 0> unwind 5;
            n3: <(), U3, 0> unwind 6;
            n4: <(), U4, 0> unwind 7;
            n5: <(), U5, 0> unwind 8;
        }
    }
    pub mod seq4 {
        use super::super::seq4;
        use crate::common::*;
        lattice! { seq4;
            n3: <(), U3, 0> unwind 7;
        }
    }
    pub mod debug_fmt {
        use super::super::debug_fmt;
        use crate::common::*;
        lattice! { debug_fmt;
            n0: <(), U0, 0> unwind 4;
            n2_00: <(), U2, 0> unwind 6;
            n2_10: <(), U2, 16> unwind 6;
            n2_11: <(), U2, 17> unwind 6;
            n3_01: <(), U3, 1> unwind 7;
        }
    }
}
pub mod t {
    pub mod step {
        use super::super::step;
        use crate::common::*;
        lattice! { step;
            n6: <(), U6, 0> unwind 9;
            n7: <(), U7, 0> unwind 10;
            n8: <(), U8, 0> unwind 11;
        }
    }
    pub mod seq4 {
        use super::super::seq4;
        use crate::common::*;
        lattice! { seq4;
            n0: <(), U0, 0> unwind 7;
            n1: <(), U1, 0> unwind 7;
            n2: <(), U2, 0> unwind 7;
            n4: <(), U4, 0> unwind 8;
        }
    }
    pub mod debug_fmt {
        use super::super::debug_fmt;
        use crate::common::*;
        lattice! { debug_fmt;
            n1_00: <(), U1, 0> unwind 5;
            n1_10: <(), U1, 16> unwind 5;
            n1_01: <(), U1, 1> unwind 5;
            n2_01: <(), U2, 1> unwind 6;
            n2_02: <(), U2, 2> unwind 6;
            n2_20: <(), U2, 32> unwind 6;
            n3_00: <(), U3, 0> unwind 7;
            n3_10: <(), U3, 16> unwind 7;
            n3_11: <(), U3, 17> unwind 7;
            n3_21: <(), U3, 33> unwind 7;
            n3_12: <(), U3, 18> unwind 7;
            n3_30: <(), U3, 48> unwind 7;
            n3_03: <(), U3, 3> unwind 7;
            n4_11: <(), U4, 17> unwind 8;
        }
    }
}
