//! C13 - comparison, hashing and Debug agree with the slice of the same elements.
use crate::common::*;
use core::cmp::Ordering;
use core::hash::{Hash, Hasher};

pub trait Elem: Sized + PartialOrd + PartialEq {
    fn sym() -> Self;
}
impl Elem for u8 { fn sym() -> u8 { any_u8() } }
impl Elem for i32 { fn sym() -> i32 { any_i32() } }
impl Elem for f64 { fn sym() -> f64 { any_f64() } }
impl Elem for GenericArray<u8, U2> { fn sym() -> Self { GenericArray::from_array([any_u8(), any_u8()]) } }

/// independent lexicographic model over PartialOrd elements (same length)
fn lex<T: PartialOrd>(a: &[T], b: &[T]) -> Option<Ordering> {
    let mut i = 0;
    while i < a.len() {
        match a[i].partial_cmp(&b[i]) {
            Some(Ordering::Equal) => {}
            other => return other,
        }
        i += 1;
    }
    Some(Ordering::Equal)
}
fn all_eq<T: PartialEq>(a: &[T], b: &[T]) -> bool {
    let mut i = 0;
    let mut r = true;
    while i < a.len() {
        r &= a[i] == b[i];
        i += 1;
    }
    r
}

pub fn compare<T: Elem, N: ArrayLength, const R: usize>() {
    let a: GenericArray<T, N> = GenericArray::generate(|_| T::sym());
    let b: GenericArray<T, N> = GenericArray::generate(|_| T::sym());
    let (sa, sb) = (a.as_slice(), b.as_slice());
    let eq = a == b;
    assert!(eq == (sa == sb), "== differs from the slices'");
    assert!(eq == all_eq(sa, sb), "== differs from element-wise equality");
    assert!((a != b) == !eq);
    let pc = a.partial_cmp(&b);
    assert!(pc == sa.partial_cmp(sb), "partial_cmp differs from the slices'");
    assert!(pc == lex(sa, sb), "partial_cmp is not lexicographic");
    assert!((a < b) == (sa < sb) && (a <= b) == (sa <= sb) && (a > b) == (sa > sb) && (a >= b) == (sa >= sb));
    kani_cover!(N::USIZE == 0 || pc == Some(Ordering::Less));
    kani_cover!(N::USIZE == 0 || pc == Some(Ordering::Greater));
    kani_cover!(pc == Some(Ordering::Equal));
    kani_cover!(N::USIZE < 2 || (pc == Some(Ordering::Less) && sa[0] == sb[0]), "decided by a later element");
}
pub fn compare_ord<T: Elem + Ord, N: ArrayLength, const R: usize>() {
    let a: GenericArray<T, N> = GenericArray::generate(|_| T::sym());
    let b: GenericArray<T, N> = GenericArray::generate(|_| T::sym());
    let c = a.cmp(&b);
    assert!(c == a.as_slice().cmp(b.as_slice()), "cmp differs from the slices'");
    assert!(Some(c) == lex(a.as_slice(), b.as_slice()), "cmp is not lexicographic");
    assert!(b.cmp(&a) == c.reverse());
    kani_cover!(N::USIZE == 0 || c == Ordering::Greater);
}
/// NaN: incomparable elements
pub fn compare_nan<T, N: ArrayLength, const R: usize>() {
    let a: GenericArray<f64, N> = GenericArray::generate(|_| any_f64());
    let b: GenericArray<f64, N> = GenericArray::generate(|_| any_f64());
    let pc = a.partial_cmp(&b);
    assert!(pc == lex(a.as_slice(), b.as_slice()));
    assert!((a == b) == all_eq(a.as_slice(), b.as_slice()));
    // the same object on both sides: still element-wise (a NaN is not equal to itself), exactly like the slices
    assert!((a == a) == all_eq(a.as_slice(), a.as_slice()), "an array compared with itself disagrees with its slice");
    assert!((a == a) == (a.as_slice() == a.as_slice()));
    assert!(a.partial_cmp(&a) == lex(a.as_slice(), a.as_slice()));
    kani_cover!(N::USIZE == 0 || pc.is_none(), "incomparable (NaN) pair reached");
    kani_cover!(N::USIZE == 0 || (a != a), "array with NaN is not equal to itself");
}

// ---- which element comparisons are made, and in which order (an element's own eq / partial_cmp / cmp may have effects or panic:
// "give the results of comparing the slices" includes stopping where the slice stops)
pub struct LogE(pub u8);
impl PartialEq for LogE {
    fn eq(&self, o: &LogE) -> bool { log(0x1_0000 | (self.0 as u32) << 8 | o.0 as u32); self.0 == o.0 }
}
impl Eq for LogE {}
impl PartialOrd for LogE {
    fn partial_cmp(&self, o: &LogE) -> Option<Ordering> { log(0x2_0000 | (self.0 as u32) << 8 | o.0 as u32); self.0.partial_cmp(&o.0) }
}
impl Ord for LogE {
    fn cmp(&self, o: &LogE) -> Ordering { log(0x3_0000 | (self.0 as u32) << 8 | o.0 as u32); self.0.cmp(&o.0) }
}
fn enc(o: Option<Ordering>) -> u8 {
    match o { None => 3, Some(Ordering::Less) => 0, Some(Ordering::Equal) => 1, Some(Ordering::Greater) => 2 }
}
pub fn compare_trace<T, N: ArrayLength, const R: usize>() {
    let a: GenericArray<LogE, N> = GenericArray::generate(|_| LogE(any_u8()));
    let b: GenericArray<LogE, N> = GenericArray::generate(|_| LogE(any_u8()));
    let op = R;
    let r1 = match op { 0 => (a == b) as u8, 1 => (a != b) as u8, 2 => enc(a.partial_cmp(&b)), 3 => enc(Some(a.cmp(&b))), 4 => (a < b) as u8, _ => (a >= b) as u8 };
    let n1 = logn();
    let (sa, sb) = (a.as_slice(), b.as_slice());
    let r2 = match op { 0 => (sa == sb) as u8, 1 => (sa != sb) as u8, 2 => enc(sa.partial_cmp(sb)), 3 => enc(Some(sa.cmp(sb))), 4 => (sa < sb) as u8, _ => (sa >= sb) as u8 };
    let n2 = logn();
    assert!(r1 == r2, "result differs from the slices'");
    assert!(n2 - n1 == n1, "the array comparison makes a different number of element comparisons than the slice comparison (e.g. no short-circuit)");
    if n1 > 0 {
        let j = any_upto(n1 - 1);
        assert!(logat(j) == logat(n1 + j), "the array comparison compares other element pairs (or in another order / through another method) than the slice comparison");
    }
    kani_cover!(N::USIZE < 2 || n1 < N::USIZE, "stopped before the last pair");
    kani_cover!(N::USIZE == 0 || n1 == N::USIZE, "ran to the last pair");
}

// ---- hashing: a recording Hasher
pub const HCAP: usize = 192;
pub struct RecHasher {
    pub buf: [u8; HCAP],
    pub len: usize,
    pub calls: usize,
}
impl RecHasher {
    pub fn new() -> Self { RecHasher { buf: [0; HCAP], len: 0, calls: 0 } }
    fn put(&mut self, tag: u8, bytes: &[u8]) {
        assert!(self.len + bytes.len() + 2 <= HCAP);
        self.buf[self.len] = tag;
        self.buf[self.len + 1] = bytes.len() as u8;
        self.buf[self.len + 2..self.len + 2 + bytes.len()].copy_from_slice(bytes);
        self.len += bytes.len() + 2;
        self.calls += 1;
    }
}
impl Hasher for RecHasher {
    fn finish(&self) -> u64 { self.len as u64 }
    fn write(&mut self, bytes: &[u8]) { self.put(0, bytes) }
    fn write_u8(&mut self, i: u8) { self.put(1, &[i]) }
    fn write_u32(&mut self, i: u32) { self.put(4, &i.to_le_bytes()) }
    fn write_i32(&mut self, i: i32) { self.put(5, &i.to_le_bytes()) }
    fn write_usize(&mut self, i: usize) { self.put(8, &i.to_le_bytes()) }
}
pub trait HElem: Hash + Sized { fn sym() -> Self; }
impl HElem for u8 { fn sym() -> u8 { any_u8() } }
impl HElem for i32 { fn sym() -> i32 { any_i32() } }
impl HElem for GenericArray<u8, U2> { fn sym() -> Self { GenericArray::from_array([any_u8(), any_u8()]) } }

pub fn hashing<T: HElem, N: ArrayLength, const R: usize>() {
    let a: GenericArray<T, N> = GenericArray::generate(|_| T::sym());
    let mut h1 = RecHasher::new();
    let mut h2 = RecHasher::new();
    a.hash(&mut h1);
    a.as_slice().hash(&mut h2);
    assert!(h1.calls == h2.calls && h1.len == h2.len, "hash feeds the hasher a different number of writes/bytes than the slice");
    let j = any_upto(HCAP - 1);
    assert!(j >= h1.len || h1.buf[j] == h2.buf[j], "hash stream differs from the slice's");
    // Borrow<[T]>: the borrowed form hashes identically (same stream => same bucket in any map)
    let mut h3 = RecHasher::new();
    core::borrow::Borrow::<[T]>::borrow(&a).hash(&mut h3);
    assert!(h3.len == h1.len && (j >= h1.len || h3.buf[j] == h1.buf[j]));
    kani_cover!(h1.len > 2);
}

pub fn debug_fmt<T, N: ArrayLength, const R: usize>() {
    let a: GenericArray<Tok, N> = GenericArray::generate(|_| Tok(any_u8()));
    let mut s1 = Sink::new();
    let mut s2 = Sink::new();
    // concrete, non-default width/precision (symbolic ones make CBMC time out inside core::fmt); the slice's
    // Debug hands the formatter to the elements unchanged, which M shows for all flag states by delegation
    let (width, prec) = if R == 0 { (None, None) } else { (Some(7u16), Some(3u16)) };
    {
        let mut o = core::fmt::FormattingOptions::new();
        o.width(width).precision(prec);
        if R != 0 { o.sign(Some(core::fmt::Sign::Plus)).sign_aware_zero_pad(true).debug_as_hex(Some(core::fmt::DebugAsHex::Lower)); }
        let mut fm = o.create_formatter(&mut s1);
        assert!(core::fmt::Debug::fmt(&a, &mut fm).is_ok());
    }
    {
        let mut o = core::fmt::FormattingOptions::new();
        o.width(width).precision(prec);
        if R != 0 { o.sign(Some(core::fmt::Sign::Plus)).sign_aware_zero_pad(true).debug_as_hex(Some(core::fmt::DebugAsHex::Lower)); }
        let mut fm = o.create_formatter(&mut s2);
        assert!(core::fmt::Debug::fmt(a.as_slice(), &mut fm).is_ok());
    }
    assert!(s1.len == s2.len && s1.calls == s2.calls, "Debug output differs from the slice's");
    let j = any_upto(SINKCAP - 1);
    assert!(j >= s1.len || s1.buf[j] == s2.buf[j], "Debug output differs from the slice's");
    kani_cover!(s1.len >= 2);
}

pub mod q {
    pub mod compare {
        use super::super::compare;
        use crate::common::*;
        lattice! { compare;
            u8_n0: <u8, U0, 0> unwind 3;
            u8_n1: <u8, U1, 0> unwind 4;
            u8_n3: <u8, U3, 0> unwind 6;
            u8_n4: <u8, U4, 0> unwind 7;
            i32_n2: <i32, U2, 0> unwind 10;
            i32_n3: <i32, U3, 0> unwind 14;
            f64_n2: <f64, U2, 0> unwind 5;
            nested_n2: <GenericArray<u8, U2>, U2, 0> unwind 5;
        }
    }
    pub mod compare_ord {
        use super::super::compare_ord;
        use crate::common::*;
        lattice! { compare_ord;
            u8_n0: <u8, U0, 0> unwind 3;
            u8_n3: <u8, U3, 0> unwind 6;
            i32_n2: <i32, U2, 0> unwind 5;
            nested_n2: <GenericArray<u8, U2>, U2, 0> unwind 5;
        }
    }
    pub mod compare_nan {
        use super::super::compare_nan;
        use crate::common::*;
        lattice! { compare_nan; n1: <(), U1, 0> unwind 4; n3: <(), U3, 0> unwind 6; }
    }
    pub mod compare_trace {
        use super::super::compare_trace;
        use crate::common::*;
        lattice! { compare_trace;
            eq_n0: <(), U0, 0> unwind 3; eq_n3: <(), U3, 0> unwind 6; ne_n3: <(), U3, 1> unwind 6; pcmp_n3: <(), U3, 2> unwind 6;
            cmp_n3: <(), U3, 3> unwind 6; lt_n3: <(), U3, 4> unwind 6; ge_n2: <(), U2, 5> unwind 5; eq_n4: <(), U4, 0> unwind 7;
        }
    }
    pub mod hashing {
        use super::super::hashing;
        use crate::common::*;
        lattice! { hashing;
            u8_n0: <u8, U0, 0> unwind 3;
            u8_n3: <u8, U3, 0> unwind 6;
            i32_n2: <i32, U2, 0> unwind 5;
            nested_n2: <GenericArray<u8, U2>, U2, 0> unwind 5;
        }
    }
    pub mod debug_fmt {
        use super::super::debug_fmt;
        use crate::common::*;
        lattice! { debug_fmt; n0: <(), U0, 0> unwind 4; n2: <(), U2, 0> unwind 6; n3: <(), U3, 0> unwind 7; n2w: <(), U2, 1> unwind 6; }
    }
}
pub mod t {
    pub mod compare_trace {
        use super::super::compare_trace;
        use crate::common::*;
        lattice! { compare_trace;
            eq_n1: <(), U1, 0> unwind 4; eq_n5: <(), U5, 0> unwind 8; eq_n8: <(), U8, 0> unwind 11; ne_n5: <(), U5, 1> unwind 8; pcmp_n5: <(), U5, 2> unwind 8;
            cmp_n5: <(), U5, 3> unwind 8; cmp_n8: <(), U8, 3> unwind 11; lt_n5: <(), U5, 4> unwind 8; ge_n5: <(), U5, 5> unwind 8; lt_n0: <(), U0, 4> unwind 3;
        }
    }
    pub mod compare {
        use super::super::compare;
        use crate::common::*;
        lattice! { compare;
            u8_n2: <u8, U2, 0> unwind 5;
            u8_n5: <u8, U5, 0> unwind 8;
            u8_n8: <u8, U8, 0> unwind 11;
            i32_n0: <i32, U0, 0> unwind 3;
            i32_n4: <i32, U4, 0> unwind 18;
            i32_n8: <i32, U8, 0> unwind 34;
            f64_n1: <f64, U1, 0> unwind 4;
            f64_n3: <f64, U3, 0> unwind 6;
            f64_n4: <f64, U4, 0> unwind 7;
            nested_n3: <GenericArray<u8, U2>, U3, 0> unwind 6;
        }
    }
    pub mod compare_ord {
        use super::super::compare_ord;
        use crate::common::*;
        lattice! { compare_ord;
            u8_n1: <u8, U1, 0> unwind 4;
            u8_n4: <u8, U4, 0> unwind 7;
            u8_n8: <u8, U8, 0> unwind 11;
            i32_n4: <i32, U4, 0> unwind 7;
        }
    }
    pub mod compare_nan {
        use super::super::compare_nan;
        use crate::common::*;
        lattice! { compare_nan; n2: <(), U2, 0> unwind 5; n4: <(), U4, 0> unwind 7; }
    }
    pub mod hashing {
        use super::super::hashing;
        use crate::common::*;
        lattice! { hashing;
            u8_n1: <u8, U1, 0> unwind 4;
            u8_n8: <u8, U8, 0> unwind 11;
            i32_n4: <i32, U4, 0> unwind 7;
            nested_n3: <GenericArray<u8, U2>, U3, 0> unwind 6;
        }
    }
    pub mod debug_fmt {
        use super::super::debug_fmt;
        use crate::common::*;
        lattice! { debug_fmt; n1: <(), U1, 0> unwind 5; n4: <(), U4, 0> unwind 8; }
    }
}
