//! C19 - "for every length": the constant default of very long arrays. The structural ConstDefault builds an N-element constant from
//! log2(N) nested constants; an implementation that visits the N slots one by one inside the const evaluator exceeds its step budget
//! (deny-by-default lint `long_running_const_eval`) and valid user items such as
//! `static BUF: GenericArray<u8, U1048576> = GenericArray::const_default();` stop compiling. Behind the cargo feature `c19`: a rejection by
//! the compiler is reported for C19 (the harness crate builds without these items and not with them).
use crate::common::*;
use const_default::ConstDefault;
use generic_array::typenum::{U1048576, U262144, U524288};

pub const ENDS_2_20: [u8; 3] = {
    let a = GenericArray::<u8, U1048576>::const_default();
    let s = a.as_slice();
    [s[0], s[1048575], (s.len() == 1048576) as u8]
};
pub const ENDS_2_19: [u16; 3] = {
    let a = <GenericArray<u16, U524288> as ConstDefault>::DEFAULT;
    let s = a.as_slice();
    [s[0], s[524287], (s.len() == 524288) as u16]
};
pub const ENDS_2_18: [u64; 3] = {
    let a = GenericArray::<u64, U262144>::const_default();
    let s = a.as_slice();
    [s[1], s[262143], (s.len() == 262144) as u64]
};
harness! { unwind 4, fn huge_const_defaults() {
    assert!(ENDS_2_20[0] == 0 && ENDS_2_20[1] == 0 && ENDS_2_20[2] == 1, "const_default() of a 2^20-element array");
    assert!(ENDS_2_19[0] == 0 && ENDS_2_19[1] == 0 && ENDS_2_19[2] == 1, "ConstDefault::DEFAULT of a 2^19-element array");
    assert!(ENDS_2_18[0] == 0 && ENDS_2_18[1] == 0 && ENDS_2_18[2] == 1, "const_default() of a 2^18-element array");
    kani_cover!(true);
}}
