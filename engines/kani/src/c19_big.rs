//! C19 - "for every length": the constant default of very long arrays. The structural ConstDefault builds an N-element constant from
//! log2(N) nested constants; an implementation that visits the N slots one by one inside the const evaluator exceeds its step budget
//! (deny-by-default lint `long_running_const_eval`) and valid user items such as
//! `static BUF: GenericArray<u8, U1048576> = GenericArray::const_default();` stop compiling. Behind the cargo feature `c19`: a rejection by
//! the compiler is reported for C19 (the harness crate builds without these items and not with them).
use crate::common::*;
use const_default::ConstDefault;
use generic_array::typenum::{U1048576, U262144, U524288};

pub const ENDS_2_20: [u8; 3] = {
    let a = GenericArray::<u8, U1048576>::const_default();
    let s = a.as_slice();
    [s[0], s[1048575], (s.len() == 1048576) as u8]
};
pub const ENDS_2_19: [u16; 3] = {
    let a = <GenericArray<u16, U524288> as ConstDefault>::DEFAULT;
    let s = a.as_slice();
    [s[0], s[524287], (s.len() == 524288) as u16]
};
pub const ENDS_2_18: [u64; 3] = {
    let a = GenericArray::<u64, U262144>::const_default();
    let s = a.as_slice();
    [s[1], s[262143], (s.len() == 262144) as u64]
};
/// every slot of a long constant default, checked inside the const evaluator (which executes the crate's code on the real types - a loop over
/// thousands of slots is beyond CBMC's unwinding budget, not beyond rustc's): the element's default is not the zero pattern
const fn all_default<N: generic_array::ArrayLength>(a: &GenericArray<crate::c19::ZD, N>) -> bool {
    let s = a.as_slice();
    let (mut ok, mut i) = (s.len() == N::USIZE, 0);
    while i < s.len() {
        ok &= s[i].a == 7 && s[i].b == 0x0903;
        i += 1;
    }
    ok
}
pub const ALL_1024: bool = all_default(&GenericArray::<crate::c19::ZD, generic_array::typenum::U1024>::const_default());
pub const ALL_2048: bool = all_default(&GenericArray::<crate::c19::ZD, generic_array::typenum::U2048>::const_default());
pub const ALL_3072: bool = all_default(&GenericArray::<crate::c19::ZD, generic_array::typenum::Sum<generic_array::typenum::U2048, generic_array::typenum::U1024>>::const_default());
pub const ALL_4096: bool = all_default(&<GenericArray<crate::c19::ZD, generic_array::typenum::U4096> as ConstDefault>::DEFAULT);
pub const ALL_4097: bool = all_default(&GenericArray::<crate::c19::ZD, generic_array::typenum::Sum<generic_array::typenum::U4096, generic_array::typenum::U1>>::const_default());
harness! { unwind 4, fn huge_const_defaults() {
    assert!(ALL_1024 && ALL_2048 && ALL_3072 && ALL_4096 && ALL_4097, "a slot of a long constant default differs from the element's constant default");
    // the same values at run time
    let rt = GenericArray::<crate::c19::ZD, generic_array::typenum::U2048>::const_default();
    let i = any_upto(2047);
    assert!(rt[i].a == 7 && rt[i].b == 0x0903, "const_default() at run time differs from the const item");
    assert!(ENDS_2_20[0] == 0 && ENDS_2_20[1] == 0 && ENDS_2_20[2] == 1, "const_default() of a 2^20-element array");
    assert!(ENDS_2_19[0] == 0 && ENDS_2_19[1] == 0 && ENDS_2_19[2] == 1, "ConstDefault::DEFAULT of a 2^19-element array");
    assert!(ENDS_2_18[0] == 0 && ENDS_2_18[1] == 0 && ENDS_2_18[2] == 1, "const_default() of a 2^18-element array");
    kani_cover!(true);
}}
