//! C07 - collecting from an iterator yields an array only for exactly N items.
use crate::common::*;

/// Scripted, *non-fused* source: yields `count` tracked items (ids 0..count), then None; if polled again after
/// None it records that and would yield again.  Its size_hint is whatever the script says (may lie).
pub struct Src {
    pub count: usize,
    pub produced: usize,
    pub lo: usize,
    pub hi: Option<usize>,
    pub ended: bool,
    pub polled_after_end: bool,
    pub next_calls: usize,
    /// checked inside `next` itself, so that the forms that end in a panic (from_iter / collect) are covered as well
    pub max_calls: usize,
}
impl Iterator for Src {
    type Item = Tr;
    fn next(&mut self) -> Option<Tr> {
        self.next_calls += 1;
        kani_cover!(self.next_calls > self.max_calls, "MUST_NOT_REACH: more than N + 1 items pulled from the source");
        kani_cover!(self.ended, "MUST_NOT_REACH: source polled again after it returned None");
        if self.ended {
            self.polled_after_end = true;
            return Some(Tr::new(40));
        }
        if self.produced < self.count {
            self.produced += 1;
            Some(Tr::new(self.produced - 1))
        } else {
            self.ended = true;
            None
        }
    }
    fn size_hint(&self) -> (usize, Option<usize>) {
        (self.lo, self.hi)
    }
}
fn script(maxc: usize) -> Src {
    let count = any_upto(maxc);
    let lo = any_usize();
    let hi = if any_bool() { Some(any_usize()) } else { None };
    Src { count, produced: 0, lo, hi, ended: false, polled_after_end: false, next_calls: 0, max_calls: usize::MAX }
}

pub fn collect<T, N: ArrayLength, const R: usize>() {
    let n = N::USIZE;
    let mut src = script(n + 3);
    src.max_calls = n + 1;
    let c = src.count;
    let truthful = src.lo <= c && src.hi.map_or(true, |h| c <= h);
    let ruled_out = src.lo > n || src.hi.map_or(false, |h| h < n);
    let boxed = any_bool();
    kani_cover!(c == n && truthful, "exactly N items, truthful hint");
    kani_cover!(c != n && !truthful && !ruled_out, "wrong count with a lying hint that does not rule N out");
    kani_cover!(c == n && ruled_out, "exactly N items but the (lying) hint rules N out");
    kani_cover!(c == n + 1 && !ruled_out, "one item too many");
    kani_cover!(n == 0 || c + 1 == n && !ruled_out, "one item too few");
    kani_cover!(boxed && src.hi.is_none());
    let mut ok = false;
    if boxed {
        let r = GenericArray::<Tr, N>::try_boxed_from_iter(&mut src);
        if let Ok(a) = &r {
            ok = true;
            if n > 0 { let i = any_upto(n - 1); assert!(a[i].observe() as usize == i, "element i is not the i-th item produced"); }
        }
        drop(r);
    } else {
        let r = GenericArray::<Tr, N>::try_from_iter(&mut src);
        if let Ok(a) = &r {
            ok = true;
            if n > 0 { let i = any_upto(n - 1); assert!(a[i].observe() as usize == i, "element i is not the i-th item produced"); }
        }
        drop(r);
    }
    if ok {
        assert!(c == n, "Ok although the source did not produce exactly N items");
        assert!(!ruled_out, "Ok although the size hint ruled N out");
    }
    if c == n && truthful {
        assert!(ok, "LengthError although the source produced exactly N items and its hint was truthful");
    }
    assert!(src.next_calls <= n + 1, "more than N + 1 items pulled");
    assert!(!src.polled_after_end, "source polled again after it returned None");
    assert!(src.produced <= n + 1);
    // every pulled item dropped exactly once; nothing else ever existed
    if src.produced > 0 {
        let k = any_upto(src.produced - 1);
        assert!(drops(k) == 1, "pulled item not dropped exactly once");
    }
    assert!(drops(40) == 0);
}

/// from_iter / collect must panic (never return) when the count is wrong
pub fn collect_panics<T, N: ArrayLength, const R: usize>() {
    let n = N::USIZE;
    let mut src = script(n + 3);
    src.max_calls = n + 1;
    assume(src.count != n);
    if any_bool() {
        let a: GenericArray<Tr, N> = (&mut src).collect();
        kani_cover!(true, "MUST_NOT_REACH: collect returned although the source did not yield exactly N items");
        core::mem::forget(a);
    } else {
        let a: Box<GenericArray<Tr, N>> = (&mut src).collect();
        kani_cover!(true, "MUST_NOT_REACH: boxed collect returned although the source did not yield exactly N items");
        core::mem::forget(a);
    }
}
pub fn collect_ok<T, N: ArrayLength, const R: usize>() {
    let n = N::USIZE;
    let mut src = script(n);
    src.max_calls = n + 1;
    assume(src.count == n && src.lo <= n && src.hi.map_or(true, |h| n <= h));
    if any_bool() {
        let a: GenericArray<Tr, N> = (&mut src).collect();
        if n > 0 { let i = any_upto(n - 1); assert!(a[i].observe() as usize == i); }
    } else {
        let a: Box<GenericArray<Tr, N>> = (&mut src).collect();
        if n > 0 { let i = any_upto(n - 1); assert!(a[i].observe() as usize == i); }
    }
    assert!(!src.polled_after_end && src.next_calls <= n + 1);
}

/// zero-sized items: the *number* of items is the whole content (a fill loop over a pointer range never runs for them)
pub fn collect_zst<T, N: ArrayLength, const R: usize>() {
    let n = N::USIZE;
    let count = any_upto(n + 2);
    let exact = any_bool();
    let boxed = any_bool();
    kani_cover!(count == n && exact && !boxed);
    kani_cover!(count == n && !exact && boxed);
    let ok = if boxed {
        if exact { GenericArray::<(), N>::try_boxed_from_iter(core::iter::repeat(()).take(count)).is_ok() }
        else { GenericArray::<(), N>::try_boxed_from_iter(core::iter::repeat(()).take(count).filter(|_| true)).is_ok() }
    } else if exact { GenericArray::<(), N>::try_from_iter(core::iter::repeat(()).take(count)).is_ok() }
    else { GenericArray::<(), N>::try_from_iter(core::iter::repeat(()).take(count).filter(|_| true)).is_ok() };
    assert!(ok == (count == n), "zero-sized items: Ok is not equivalent to `exactly N items`");
}

pub mod q {
    pub mod collect_zst {
        use super::super::collect_zst;
        use crate::common::*;
        lattice! { collect_zst;
            n0: <(), U0, 0> unwind 5;
            n1: <(), U1, 0> unwind 6;
            n3: <(), U3, 0> unwind 8;
        }
    }
    pub mod collect {
        use super::super::collect;
        use crate::common::*;
        lattice! { collect;
            n0: <(), U0, 0> unwind 6;
            n1: <(), U1, 0> unwind 7;
            n2: <(), U2, 0> unwind 8;
            n3: <(), U3, 0> unwind 9;
            n5: <(), U5, 0> unwind 11;
        }
    }
    pub mod collect_panics {
        use super::super::collect_panics;
        use crate::common::*;
        lattice_panics! { collect_panics;
            n0: <(), U0, 0> unwind 6;
            n2: <(), U2, 0> unwind 8;
            n3: <(), U3, 0> unwind 9;
        }
    }
    pub mod collect_ok {
        use super::super::collect_ok;
        use crate::common::*;
        lattice! { collect_ok;
            n0: <(), U0, 0> unwind 6;
            n3: <(), U3, 0> unwind 9;
        }
    }
}
pub mod t {
    pub mod collect {
        use super::super::collect;
        use crate::common::*;
        lattice! { collect;
            n4: <(), U4, 0> unwind 10;
            n6: <(), U6, 0> unwind 12;
            n7: <(), U7, 0> unwind 13;
            n8: <(), U8, 0> unwind 14;
        }
    }
    pub mod collect_panics {
        use super::super::collect_panics;
        use crate::common::*;
        lattice_panics! { collect_panics;
            n1: <(), U1, 0> unwind 7;
            n5: <(), U5, 0> unwind 11;
        }
    }
    pub mod collect_ok {
        use super::super::collect_ok;
        use crate::common::*;
        lattice! { collect_ok;
            n1: <(), U1, 0> unwind 7;
            n5: <(), U5, 0> unwind 11;
        }
    }
}
