//! C09 - lengthen / shorten / split / concat / remove equal the corresponding Vec operations.
//! Reference = the Vec semantics written over plain arrays in the harness (no Vec, to keep CBMC small).
use crate::common::*;

macro_rules! lengthen_shorten {
    ($name:ident, $T:ty, $N:ty, $n:literal, $u:literal) => {
        harness! { unwind $u, fn $name() {
            let src: [$T; $n] = sym_arr();
            let a: GenericArray<$T, $N> = GenericArray::generate(|i| { let w = <$T>::sym(); assume(w.same(&src[i])); w });
            let x = <$T>::sym();
            let x2 = <$T>::sym();
            assume(x.same(&x2));
            let i = any_upto($n);     // index into the N+1 result
            if any_bool() {
                // push
                let l = a.append(x);
                assert!(l.len() == $n + 1);
                if i < $n { assert!(l[i].same(&src[i]), "append moved an element"); } else { assert!(l[i].same(&x2), "append: last element wrong"); }
                // pop
                let (init, last) = l.pop_back();
                assert!(last.same(&x2), "pop_back returned the wrong element");
                assert!(init.len() == $n);
                if i < $n { assert!(init[i].same(&src[i]), "pop_back disturbed the rest"); }
            } else {
                // insert(0)
                let l = a.prepend(x);
                assert!(l.len() == $n + 1);
                if i == 0 { assert!(l[0].same(&x2), "prepend: first element wrong"); } else { assert!(l[i].same(&src[i - 1]), "prepend moved an element"); }
                // remove(0)
                let (first, tail) = l.pop_front();
                assert!(first.same(&x2), "pop_front returned the wrong element");
                assert!(tail.len() == $n);
                if i < $n { assert!(tail[i].same(&src[i]), "pop_front disturbed the rest"); }
            }
        }}
    };
}

macro_rules! split_concat {
    ($name:ident, $T:ty, $N:ty, $n:literal, $K:ty, $k:literal, $u:literal) => {
        harness! { unwind $u, fn $name() {
            let src: [$T; $n] = sym_arr();
            let mut a: GenericArray<$T, $N> = GenericArray::generate(|i| { let w = <$T>::sym(); assume(w.same(&src[i])); w });
            let i = any_usize();
            assume($n == 0 || i < $n);
            let base = a.as_ptr() as usize;
            let sz = core::mem::size_of::<$T>();
            // by-reference forms: the two sub-ranges of the original storage
            {
                let (h, t): (&GenericArray<$T, $K>, &GenericArray<$T, _>) = Split::<$T, $K>::split(&a);
                assert!(h.len() == $k && t.len() == $n - $k, "split halves have the wrong lengths");
                if sz > 0 && $k > 0 { assert!(h.as_ptr() as usize == base, "first half does not start at the array"); }
                if sz > 0 && $n - $k > 0 { assert!(t.as_ptr() as usize == base + $k * sz, "second half not adjacent to the first"); }
                // every element, by concrete index: Kani 0.68 reports a spurious counterexample (not reproducible natively, nor under Miri)
                // for a *symbolic* index into a reinterpreted reference at a non-zero offset when the elements are themselves arrays
                let mut j = 0;
                while j < $n { if j < $k { assert!(h[j].same(&src[j]), "by-reference split: head element wrong"); } else { assert!(t[j - $k].same(&src[j]), "by-reference split: tail element wrong"); } j += 1; }
            }
            {
                let (h, t): (&mut GenericArray<$T, $K>, &mut GenericArray<$T, _>) = Split::<$T, $K>::split(&mut a);
                assert!(h.len() == $k && t.len() == $n - $k);
                if sz > 0 && $k > 0 { assert!(h.as_ptr() as usize == base); }
                if sz > 0 && $n - $k > 0 { assert!(t.as_ptr() as usize == base + $k * sz); }
                let mut j = 0;
                while j < $n { if j < $k { assert!(h[j].same(&src[j]), "by-reference split (mut): head element wrong"); } else { assert!(t[j - $k].same(&src[j]), "by-reference split (mut): tail element wrong"); } j += 1; }
            }
            // by value: split_at(K) then extend
            let (h, t): (GenericArray<$T, $K>, _) = Split::<$T, $K>::split(a);
            assert!(h.len() == $k && t.len() == $n - $k);
            if $n > 0 { if i < $k { assert!(h[i].same(&src[i]), "split: head element wrong"); } else { assert!(t[i - $k].same(&src[i]), "split: tail element wrong"); } }
            let whole: GenericArray<$T, $N> = Concat::concat(h, t);
            assert!(whole.len() == $n);
            if $n > 0 { assert!(whole[i].same(&src[i]), "concat(split) is not the identity"); }
            kani_cover!($n == 0 || i + 1 == $n);
        }}
    };
}

macro_rules! remove_ops {
    ($name:ident, $T:ty, $N:ty, $n:literal, $u:literal) => {
        harness! { unwind $u, fn $name() {
            let src: [$T; $n] = sym_arr();
            let a: GenericArray<$T, $N> = GenericArray::generate(|i| { let w = <$T>::sym(); assume(w.same(&src[i])); w });
            let idx = any_upto($n - 1);
            let j = any_usize();
            assume($n < 2 || j < $n - 1);
            kani_cover!(idx == $n - 1);
            kani_cover!($n < 2 || (idx == 0 && j == $n - 2));
            if any_bool() {
                let (x, rest) = a.remove(idx);
                assert!(x.same(&src[idx]), "remove returned the wrong element");
                assert!(rest.len() == $n - 1);
                if $n > 1 { assert!(rest[j].same(&src[if j < idx { j } else { j + 1 }]), "remove: remaining elements differ from Vec::remove"); }
            } else {
                let (x, rest) = a.swap_remove(idx);
                assert!(x.same(&src[idx]), "swap_remove returned the wrong element");
                assert!(rest.len() == $n - 1);
                if $n > 1 { assert!(rest[j].same(&src[if j == idx { $n - 1 } else { j }]), "swap_remove: remaining elements differ from Vec::swap_remove"); }
            }
        }}
    };
}
/// remove / swap_remove with idx >= N must panic (and never return)
macro_rules! remove_oob {
    ($name:ident, $T:ty, $N:ty, $n:literal, $u:literal) => {
        harness! { panics unwind $u, fn $name() {
            let a: GenericArray<$T, $N> = sym_ga();
            let idx = any_usize();
            assume(idx >= $n);
            kani_cover!(idx == $n);
            kani_cover!(idx == usize::MAX);
            if any_bool() {
                let r = a.remove(idx);
                kani_cover!(true, "MUST_NOT_REACH: remove(idx >= N) returned");
                core::mem::forget(r);
            } else {
                let r = a.swap_remove(idx);
                kani_cover!(true, "MUST_NOT_REACH: swap_remove(idx >= N) returned");
                core::mem::forget(r);
            }
        }}
    };
}

pub mod q {
    use crate::common::*;
    lengthen_shorten!(ls_u8_0, u8, U0, 0, 4);
    lengthen_shorten!(ls_u8_1, u8, U1, 1, 5);
    lengthen_shorten!(ls_u8_4, u8, U4, 4, 8);
    lengthen_shorten!(ls_u64_3, u64, U3, 3, 7);
    lengthen_shorten!(ls_w24_2, [u64; 3], U2, 2, 6);
    lengthen_shorten!(ls_unit_3, (), U3, 3, 7);
    split_concat!(sc_u8_0_0, u8, U0, 0, U0, 0, 4);
    split_concat!(sc_u8_4_0, u8, U4, 4, U0, 0, 8);
    split_concat!(sc_u8_4_1, u8, U4, 4, U1, 1, 8);
    split_concat!(sc_u8_4_4, u8, U4, 4, U4, 4, 8);
    split_concat!(sc_u64_5_2, u64, U5, 5, U2, 2, 9);
    split_concat!(sc_w24_3_2, [u64; 3], U3, 3, U2, 2, 7);
    split_concat!(sc_unit_3_1, (), U3, 3, U1, 1, 7);
    remove_ops!(rm_u8_1, u8, U1, 1, 5);
    remove_ops!(rm_u8_2, u8, U2, 2, 6);
    remove_ops!(rm_u8_5, u8, U5, 5, 9);
    remove_ops!(rm_u8_7, u8, U7, 7, 11);      // long enough for a "shift the shorter side" variant to move two or more leading elements
    remove_ops!(rm_u64_4, u64, U4, 4, 8);
    remove_ops!(rm_w24_3, [u64; 3], U3, 3, 7);
    remove_ops!(rm_unit_3, (), U3, 3, 7);
    remove_oob!(oob_u8_1, u8, U1, 1, 5);
    remove_oob!(oob_u8_4, u8, U4, 4, 8);
    remove_oob!(oob_u64_3, u64, U3, 3, 7);
}
pub mod t {
    use crate::common::*;
    lengthen_shorten!(ls_u8_2, u8, U2, 2, 6);
    lengthen_shorten!(ls_u8_3, u8, U3, 3, 7);
    lengthen_shorten!(ls_u8_7, u8, U7, 7, 11);
    lengthen_shorten!(ls_u8_8, u8, U8, 8, 12);
    lengthen_shorten!(ls_u64_0, u64, U0, 0, 4);
    lengthen_shorten!(ls_u64_7, u64, U7, 7, 11);
    lengthen_shorten!(ls_w24_5, [u64; 3], U5, 5, 9);
    lengthen_shorten!(ls_u8_15, u8, U15, 15, 19);
    lengthen_shorten!(ls_u8_16, u8, U16, 16, 20);
    split_concat!(sc_u8_1_0, u8, U1, 1, U0, 0, 5);
    split_concat!(sc_u8_1_1, u8, U1, 1, U1, 1, 5);
    split_concat!(sc_u8_2_1, u8, U2, 2, U1, 1, 6);
    split_concat!(sc_u8_3_1, u8, U3, 3, U1, 1, 7);
    split_concat!(sc_u8_3_2, u8, U3, 3, U2, 2, 7);
    split_concat!(sc_u8_4_2, u8, U4, 4, U2, 2, 8);
    split_concat!(sc_u8_4_3, u8, U4, 4, U3, 3, 8);
    split_concat!(sc_u8_5_0, u8, U5, 5, U0, 0, 9);
    split_concat!(sc_u8_5_3, u8, U5, 5, U3, 3, 9);
    split_concat!(sc_u8_5_5, u8, U5, 5, U5, 5, 9);
    split_concat!(sc_u8_6_3, u8, U6, 6, U3, 3, 10);
    split_concat!(sc_u8_7_4, u8, U7, 7, U4, 4, 11);
    split_concat!(sc_u8_8_1, u8, U8, 8, U1, 1, 12);
    split_concat!(sc_u8_8_7, u8, U8, 8, U7, 7, 12);
    split_concat!(sc_u8_8_8, u8, U8, 8, U8, 8, 12);
    split_concat!(sc_u8_33_17, u8, U33, 33, U17, 17, 37);
    split_concat!(sc_u64_8_3, u64, U8, 8, U3, 3, 12);
    split_concat!(sc_w24_4_1, [u64; 3], U4, 4, U1, 1, 8);
    split_concat!(sc_unit_0_0, (), U0, 0, U0, 0, 4);
    remove_ops!(rm_u8_3, u8, U3, 3, 7);
    remove_ops!(rm_u8_4, u8, U4, 4, 8);
    remove_ops!(rm_u8_8, u8, U8, 8, 12);
    remove_ops!(rm_u8_17, u8, U17, 17, 21);
    remove_ops!(rm_u64_7, u64, U7, 7, 11);
    remove_ops!(rm_w24_5, [u64; 3], U5, 5, 9);
    remove_oob!(oob_u8_2, u8, U2, 2, 6);
    remove_oob!(oob_u8_8, u8, U8, 8, 12);
    remove_oob!(oob_w24_2, [u64; 3], U2, 2, 6);
    remove_oob!(oob_unit_3, (), U3, 3, 7);
}
