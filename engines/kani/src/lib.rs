//! Kani proof harnesses for fizyk20/generic-array (engine K of /verif).
//!
//! The crate has a *path dependency* on the repository, so every `cargo kani` run compiles the
//! repository's current working tree.  Module `cNN` holds the harnesses of property `CNN`;
//! sub-module `q` is the quick lattice, `t` the additional thorough lattice.
#![allow(dead_code, unused_imports, unused_macros, unused_variables, unused_mut, static_mut_refs, clippy::all)]
#![feature(formatting_options)]   // harnesses build a core::fmt::Formatter directly; native replays use the same nightly toolchains
extern crate alloc;

#[macro_use]
pub mod common;

/// `lattice!{ body; name: <T, N, R> unwind u; ... }` - one monomorphic proof harness per line,
/// calling the generic harness body `body::<T, N, R>()`.
#[macro_export]
macro_rules! lattice {
    ($body:ident; $( $name:ident : <$T:ty, $N:ty, $R:literal> unwind $u:literal ;)*) => {
        $(
            #[cfg_attr(kani, kani::proof)]
            #[cfg_attr(kani, kani::unwind($u))]
            pub fn $name() { $body::<$T, $N, { $R }>() }
        )*
    };
}
/// same with one extra Kani attribute (e.g. a stub), written as `[kani::stub(a, b)]`
#[macro_export]
macro_rules! lattice_attr {
    ([$attr:meta] $body:ident; $( $name:ident : <$T:ty, $N:ty, $R:literal> unwind $u:literal ;)*) => {
        $(
            #[cfg_attr(kani, kani::proof)]
            #[cfg_attr(kani, kani::unwind($u))]
            #[cfg_attr(kani, $attr)]
            pub fn $name() { $body::<$T, $N, { $R }>() }
        )*
    };
}
/// same, for bodies that must end in a panic on every path
#[macro_export]
macro_rules! lattice_panics {
    ($body:ident; $( $name:ident : <$T:ty, $N:ty, $R:literal> unwind $u:literal ;)*) => {
        $(
            #[cfg_attr(kani, kani::proof)]
            #[cfg_attr(kani, kani::unwind($u))]
            #[cfg_attr(kani, kani::should_panic)]
            pub fn $name() { $body::<$T, $N, { $R }>() }
        )*
    };
}
/// A single harness: `harness!{ unwind 5, fn name() { ... } }`
#[macro_export]
macro_rules! harness {
    (unwind $u:literal, fn $name:ident() $body:block) => {
        #[cfg_attr(kani, kani::proof)]
        #[cfg_attr(kani, kani::unwind($u))]
        pub fn $name() $body
    };
    (panics unwind $u:literal, fn $name:ident() $body:block) => {
        #[cfg_attr(kani, kani::proof)]
        #[cfg_attr(kani, kani::unwind($u))]
        #[cfg_attr(kani, kani::should_panic)]
        pub fn $name() $body
    };
}

pub mod c01;
pub mod gen_c01;
pub mod c02;
pub mod c03;
pub mod c04;
pub mod c05;
pub mod c06;
pub mod c07;
pub mod c08;
pub mod c09;
pub mod c10;
pub mod c11;
pub mod c13;
pub mod c14;
pub mod c15;
pub mod c16;
pub mod c17;
#[cfg(feature = "c18")]
pub mod c18;
pub mod c19;
#[cfg(feature = "c19")]
pub mod c19_big;
#[cfg(feature = "c20")]
pub mod gen_c20;
