//! C16 - every heap block is requested validly, freed once with its layout, never leaked.
//! Run under Kani's allocator model (`__rust_alloc` asserts size > 0; `__rust_dealloc` asserts the freed
//! object's size equals the layout size) with CBMC's `--memory-leak-check`; the `*_fail` harnesses
//! additionally stub `alloc::alloc::alloc` with an allocator that may return null.
use crate::common::*;

/// every alloc-feature operation (operation number R, one harness each - a symbolic selector over all of them made the single harness
/// too heavy for counterexample-trace generation); everything is dropped before the harness ends
pub fn ops<T: Sym, N: ArrayLength, const R: usize>() {
    let n = N::USIZE;
    let op = R;
    kani_cover!(true);
    match op {
        10 => {
            // a source whose size_hint lower bound is 0 but which yields exactly N items (filter)
            let r = GenericArray::<T, N>::try_boxed_from_iter((0..n).filter(|_| true).map(|_| T::sym()));
            assert!(r.is_ok());
            let b: Box<GenericArray<T, N>> = (0..n).filter(|_| true).map(|_| T::sym()).collect();
            drop(r);
            drop(b);
        }
        0 => { let b = Box::<GenericArray<T, N>>::generate(|_| T::sym()); drop(b); }
        1 => { let b: Box<GenericArray<T, N>> = (0..n).map(|_| T::sym()).collect(); drop(b); }
        2 => {
            // wrong counts: Err, nothing may stay allocated
            let c = any_upto(n + 2);
            let r = GenericArray::<T, N>::try_boxed_from_iter((0..c).map(|_| T::sym()));
            assert!(r.is_ok() == (c == n));
            drop(r);
        }
        3 => { let v: Vec<T> = sym_ga::<T, N>().into(); assert!(v.len() == n); drop(v); }
        4 => { let b: Box<[T]> = sym_ga::<T, N>().into(); assert!(b.len() == n); drop(b); }
        5 => {
            let l = any_upto(n + 1);
            let mut v: Vec<T> = Vec::with_capacity(l + any_upto(2));
            let mut i = 0;
            while i < l { v.push(T::sym()); i += 1; }
            let r = GenericArray::<T, N>::try_from_vec(v);
            assert!(r.is_ok() == (l == n));
            drop(r);
        }
        6 => {
            let l = any_upto(n + 1);
            let mut v: Vec<T> = Vec::with_capacity(l);
            let mut i = 0;
            while i < l { v.push(T::sym()); i += 1; }
            let r: Result<GenericArray<T, N>, LengthError> = GenericArray::try_from(v.into_boxed_slice());
            assert!(r.is_ok() == (l == n));
            drop(r);
        }
        7 => {
            let b: Box<GenericArray<T, N>> = Box::new(sym_ga());
            let v = b.into_vec();
            let b2 = GenericArray::<T, N>::try_from_vec(v).ok().unwrap();
            let s = b2.into_boxed_slice();
            let b3 = GenericArray::<T, N>::try_from_boxed_slice(s).ok().unwrap();
            let mut cnt = 0;
            for _x in b3 { cnt += 1; }
            assert!(cnt == n);
        }
        8 => {
            let a = Box::<GenericArray<T, N>>::generate(|_| T::sym());
            let b = Box::<GenericArray<T, N>>::generate(|_| T::sym());
            let z: Box<GenericArray<u8, N>> = a.zip(b, |_x, _y| 1u8);
            let m: Box<GenericArray<u8, N>> = z.map(|x| x + 1);
            let s = m.fold(0usize, |acc, x| acc + x as usize);
            assert!(s == 2 * n);
        }
        _ => {
            let l = any_upto(n + 1);
            let mut v: Vec<T> = Vec::with_capacity(l + 1);
            let mut i = 0;
            while i < l { v.push(T::sym()); i += 1; }
            let r: Result<GenericArray<T, N>, LengthError> = GenericArray::try_from(v);
            assert!(r.is_ok() == (l == n));
            drop(r);
        }
    }
}

/// tracked elements with a heap payload: a double drop is a double free, a lost element is a leak
pub fn ops_payload<T, N: ArrayLength, const R: usize>() {
    let n = N::USIZE;
    let op = any_upto(3);
    kani_cover!(op == 3);
    match op {
        0 => { let b = Box::<GenericArray<TrBox, N>>::generate(TrBox::new); let v = b.into_vec(); drop(v); }
        1 => {
            let c = any_upto(n + 1);
            let r = GenericArray::<TrBox, N>::try_boxed_from_iter((0..c).map(TrBox::new));
            assert!(r.is_ok() == (c == n));
            drop(r);
        }
        2 => {
            let a: GenericArray<TrBox, N> = trbox_array::<N>(0);
            let v: Vec<TrBox> = a.into();
            let back = GenericArray::<TrBox, N>::try_from(v).ok().unwrap();
            let mut it = back.into_iter();
            let k = any_upto(n);
            let _ = it.nth(k);
            drop(it);
        }
        _ => {
            let a = Box::<GenericArray<TrBox, N>>::generate(TrBox::new);
            let m: Box<GenericArray<TrBox, N>> = a.map(|x| { let id = x.observe(); TrBox::new(id as usize + CLONE_OFFSET) });
            drop(m);
        }
    }
}

/// repeat forms of box_arr! with a heap-owning operand: the operand and every clone of it own a block (length 0: the operand alone);
/// concrete lengths only (the macro's type-level form is not promised to accept a generic parameter of the enclosing function)
pub fn box_arr_payload<T, N: ArrayLength, const R: usize>() {
    match any_upto(3) {
        0 => { let b: Box<GenericArray<Box<u8>, U0>> = generic_array::box_arr![Box::new(any_u8()); U0]; assert!(b.len() == 0); }
        1 => { let b: Box<GenericArray<Box<u8>, U3>> = generic_array::box_arr![Box::new(any_u8()); U3]; assert!(b.len() == 3 && *b[2] == *b[0]); }
        2 => { let b = generic_array::box_arr![Box::new(any_u8()); 0]; assert!(b.len() == 0); }
        _ => { let b = generic_array::box_arr![Box::new(any_u8()); 2]; assert!(b.len() == 2 && *b[1] == *b[0]); }
    }
    kani_cover!(true);
}

// ---- allocation failure: `alloc::alloc::alloc` may return null -------------------------------------
pub mod failing {
    use crate::common::*;
    use core::alloc::Layout;
    /// set by the failing allocator (the Kani stub, or the replay binary's allocator natively)
    pub static mut ALLOC_FAILED: bool = false;
    pub static mut HAE_REACHED: bool = false;
    #[cfg(kani)]
    extern "Rust" {
        fn __rust_alloc(size: usize, align: usize) -> *mut u8;
    }
    /// nondeterministically failing allocator
    #[cfg(kani)]
    pub unsafe fn maybe_null_alloc(layout: Layout) -> *mut u8 {
        if any_bool() {
            ALLOC_FAILED = true;
            core::ptr::null_mut()
        } else {
            __rust_alloc(layout.size(), layout.align())
        }
    }
    /// the standard allocation-error path: record it, then end the path (it never returns)
    #[cfg(kani)]
    pub fn hae(_layout: Layout) -> ! {
        unsafe { HAE_REACHED = true; }
        kani::assume(false);
        loop {}
    }
    pub fn ops_fail<T: Sym, N: ArrayLength, const R: usize>() {
        let n = N::USIZE;
        let op = any_upto(3);
        match op {
            0 => { let b = Box::<GenericArray<T, N>>::generate(|_| T::sym()); assert!(b.len() == n); drop(b); }
            1 => { let r = GenericArray::<T, N>::try_boxed_from_iter((0..n).map(|_| T::sym())); assert!(r.is_ok()); drop(r); }
            2 => { let b: Box<[T]> = sym_ga::<T, N>().into(); assert!(b.len() == n); drop(b); }
            _ => { let d: Box<GenericArray<u8, N>> = GenericArray::default_boxed(); assert!(d.len() == n); drop(d); }
        }
        // reaching this point means every allocation succeeded: a failed one must have ended in handle_alloc_error
        assert!(unsafe { !ALLOC_FAILED }, "operation continued after the allocator reported failure");
        kani_cover!(true, "all allocations succeeded");
    }
}

// ---- alignment: Kani's __rust_dealloc compares sizes only; these stubs also remember and compare the alignment ----------------
pub mod aligned {
    use crate::common::*;
    use core::alloc::Layout;
    pub static mut BLOCKS: [(usize, usize, usize); 6] = [(0, 0, 0); 6];
    #[cfg(kani)]
    extern "Rust" {
        fn __rust_alloc(size: usize, align: usize) -> *mut u8;
        fn __rust_dealloc(ptr: *mut u8, size: usize, align: usize);
    }
    #[cfg(kani)]
    pub unsafe fn recording_alloc(layout: Layout) -> *mut u8 {
        let p = __rust_alloc(layout.size(), layout.align());
        let mut i = 0;
        while i < 6 {
            if BLOCKS[i].0 == 0 { BLOCKS[i] = (p as usize, layout.size(), layout.align()); break; }
            i += 1;
        }
        assert!(i < 6, "harness block table full");
        p
    }
    /// `Global::deallocate` goes through the private `alloc::alloc::dealloc_nonnull` in this std; the public `dealloc` forwards to it too
    #[cfg(kani)]
    pub unsafe fn checking_dealloc(nn: core::ptr::NonNull<u8>, layout: Layout) {
        let ptr = nn.as_ptr();
        let mut i = 0;
        while i < 6 {
            if BLOCKS[i].0 == ptr as usize {
                assert!(BLOCKS[i].1 == layout.size(), "block released with a different size than it was requested with");
                assert!(BLOCKS[i].2 == layout.align(), "block released with a different alignment than it was requested with");
                BLOCKS[i] = (0, 0, 0);
            }
            i += 1;
        }
        // blocks that reached us through realloc / alloc_zeroed are not in the table: nothing to compare for them
        __rust_dealloc(ptr, layout.size(), layout.align());
    }
    /// element types of equal size and different alignment, through every boxed operation that builds one array from another
    pub fn ops_align<T, N: ArrayLength, const R: usize>() {
        let n = N::USIZE;
        let op = any_upto(3);
        kani_cover!(op == 3);
        match op {
            0 => { let a = Box::<GenericArray<[u8; 8], N>>::generate(|_| [any_u8(); 8]); let m: Box<GenericArray<u64, N>> = a.map(|x| u64::from_le_bytes(x)); drop(m); }
            1 => { let a = Box::<GenericArray<u64, N>>::generate(|_| any_u64()); let m: Box<GenericArray<[u8; 8], N>> = a.map(|x| x.to_le_bytes()); drop(m); }
            2 => { let a = Box::<GenericArray<[u16; 2], N>>::generate(|_| [any_u16(); 2]); let b = Box::<GenericArray<u32, N>>::generate(|_| any_u32());
                   let z: Box<GenericArray<u32, N>> = a.zip(b, |x, y| (x[0] as u32) ^ y); drop(z); }
            _ => { let a: Box<GenericArray<A16, N>> = Box::<GenericArray<A16, N>>::generate(|_| A16(any_u8())); let v = a.into_vec(); let b = GenericArray::<A16, N>::try_from_vec(v).ok().unwrap(); drop(b); }
        }
        kani_cover!(unsafe { BLOCKS[0].0 } == 0, "the first recorded block was released through the checked path");
    }
}
macro_rules! c16_align_lattice {
    ($($name:ident: $N:ty, $u:literal;)*) => {
        pub mod ops_align {
            #[cfg(kani)]
            use super::super::aligned::{checking_dealloc, recording_alloc};
            use super::super::aligned::ops_align;
            use crate::common::*;
            $(
                #[cfg_attr(kani, kani::proof)]
                #[cfg_attr(kani, kani::unwind($u))]
                #[cfg_attr(kani, kani::stub(alloc::alloc::alloc, recording_alloc))]
                #[cfg_attr(kani, kani::stub(alloc::alloc::dealloc_nonnull, checking_dealloc))]
                pub fn $name() { ops_align::<(), $N, 0>() }
            )*
        }
    };
}
macro_rules! c16_ops_lattice {
    ($($name:ident: $T:ty, $N:ty, $u:literal;)*) => {
        pub mod ops {
            $(
                pub mod $name {
                    use super::super::super::ops;
                    use crate::common::*;
                    lattice! { ops;
                        op0: <$T, $N, 0> unwind $u; op1: <$T, $N, 1> unwind $u; op2: <$T, $N, 2> unwind $u; op3: <$T, $N, 3> unwind $u;
                        op4: <$T, $N, 4> unwind $u; op5: <$T, $N, 5> unwind $u; op6: <$T, $N, 6> unwind $u; op7: <$T, $N, 7> unwind $u;
                        op8: <$T, $N, 8> unwind $u; op9: <$T, $N, 9> unwind $u; op10: <$T, $N, 10> unwind $u;
                    }
                }
            )*
        }
    };
}
macro_rules! c16_lattice {
    ($body:ident; $($name:ident: $T:ty, $N:ty, $u:literal;)*) => {
        pub mod $body {
            use super::super::$body;
            use crate::common::*;
            lattice! { $body; $($name: <$T, $N, 0> unwind $u;)* }
        }
    };
}
macro_rules! c16_fail_lattice {
    ($($name:ident: $T:ty, $N:ty, $u:literal;)*) => {
        pub mod ops_fail {
            #[cfg(kani)]
            use super::super::failing::{hae, maybe_null_alloc};
            use super::super::failing::ops_fail;
            use crate::common::*;
            $(
                #[cfg_attr(kani, kani::proof)]
                #[cfg_attr(kani, kani::unwind($u))]
                #[cfg_attr(kani, kani::stub(alloc::alloc::alloc, maybe_null_alloc))]
                #[cfg_attr(kani, kani::stub(alloc::alloc::handle_alloc_error, hae))]
                pub fn $name() { ops_fail::<$T, $N, 0>() }
            )*
        }
    };
}
pub mod q {
    c16_ops_lattice! { u64_n0: u64, U0, 5; u64_n1: u64, U1, 6; u64_n3: u64, U3, 8; unit_n0: (), U0, 5; unit_n3: (), U3, 8; }
    c16_lattice! { ops_payload; n0: (), U0, 5; n1: (), U1, 6; n3: (), U3, 8; }
    c16_lattice! { box_arr_payload; any: (), U0, 8; }
    c16_fail_lattice! { u64_n0: u64, U0, 5; u64_n1: u64, U1, 6; u64_n3: u64, U3, 8; unit_n3: (), U3, 8; }
    c16_align_lattice! { n1: U1, 8; n3: U3, 10; }
}
pub mod t {
    c16_ops_lattice! { u64_n2: u64, U2, 7; u64_n5: u64, U5, 10; u8_n8: u8, U8, 13; unit_n1: (), U1, 6; pad_n3: (u8, u16), U3, 8; a16_n2: A16, U2, 7; }
    c16_lattice! { ops_payload; n2: (), U2, 7; n4: (), U4, 9; n5: (), U5, 10; }
    c16_fail_lattice! { u64_n2: u64, U2, 7; u64_n5: u64, U5, 10; u8_n8: u8, U8, 13; unit_n0: (), U0, 5; }
    c16_align_lattice! { n2: U2, 9; n4: U4, 11; }
}
