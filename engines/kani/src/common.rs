//! Shared vocabulary of the harness crate.
//!
//! Every harness is an ordinary `pub fn` carrying `#[cfg_attr(kani, kani::proof)]`, so the same
//! function is (a) a Kani proof harness when compiled by `cargo kani` and (b) a native function the
//! replay binary can call with the concrete values of a counterexample (`src/bin/replay.rs`).
//! All nondeterminism goes through the `any_*` helpers below, which bottom out in `kani::any::<uN>()`
//! of unsigned primitives only: one primitive = one byte vector of Kani's concrete playback, so the
//! native shim can feed the solver's assignment back in the same order.

pub use generic_array::functional::*;
pub use generic_array::sequence::*;
pub use generic_array::typenum::consts::*;
pub use generic_array::{arr, box_arr, ArrayLength, GenericArray, GenericArrayIter, LengthError};

pub use alloc::boxed::Box;
pub use alloc::vec::Vec;

#[cfg(not(kani))]
pub mod kani {
    //! Native stand-in for the `kani` crate (replay mode).
    use std::cell::RefCell;
    use std::collections::VecDeque;
    thread_local! {
        pub static VALUES: RefCell<VecDeque<Vec<u8>>> = RefCell::new(VecDeque::new());
    }
    pub fn load(values: Vec<Vec<u8>>) {
        VALUES.with(|v| *v.borrow_mut() = values.into());
    }
    thread_local! {
        /// sweep mode (no concrete playback available): values come from a seeded generator biased towards small and boundary values
        pub static SWEEP: std::cell::Cell<Option<u64>> = std::cell::Cell::new(None);
    }
    pub struct AssumeFalse;
    fn rnd() -> u64 {
        SWEEP.with(|s| {
            let mut x = s.get().unwrap();
            x ^= x << 13; x ^= x >> 7; x ^= x << 17;
            s.set(Some(x));
            x
        })
    }
    pub fn next_bytes(n: usize) -> Vec<u8> {
        if SWEEP.with(|s| s.get()).is_some() {
            let r = rnd();
            let v: u128 = match r % 10 {
                0..=5 => ((r >> 8) % 48) as u128,
                6 => u128::MAX - ((r >> 8) % 3) as u128,
                7 => ((r >> 8) % 300) as u128,
                _ => ((rnd() as u128) << 64) | rnd() as u128,
            };
            return v.to_le_bytes()[..n].to_vec();
        }
        let got = VALUES.with(|v| v.borrow_mut().pop_front());
        match got {
            Some(b) if b.len() == n => b,
            Some(b) => {
                eprintln!("REPLAY-MISMATCH: expected {n} bytes, playback has {}", b.len());
                std::process::exit(3);
            }
            // Kani omits trailing values the counterexample does not depend on.
            None => vec![0u8; n],
        }
    }
    pub trait Arbitrary: Sized {
        fn any() -> Self;
    }
    macro_rules! prim { ($($t:ty),*) => {$(
        impl Arbitrary for $t {
            fn any() -> Self {
                let b = next_bytes(core::mem::size_of::<$t>());
                let mut a = [0u8; core::mem::size_of::<$t>()];
                a.copy_from_slice(&b);
                <$t>::from_le_bytes(a)
            }
        }
    )*} }
    prim!(u8, u16, u32, u64, usize, u128);
    pub fn any<T: Arbitrary>() -> T {
        T::any()
    }
    pub fn assume(c: bool) {
        if !c && SWEEP.with(|s| s.get()).is_some() {
            std::panic::panic_any(AssumeFalse);      // this sample does not satisfy the harness' precondition: next one
        }
        if !c {
            // the recorded assignment does not satisfy the harness' precondition: not a counterexample
            eprintln!("REPLAY-ASSUME-FALSE");
            std::process::exit(4);
        }
    }
}
#[cfg(not(kani))]
#[macro_export]
macro_rules! kani_cover {
    // natively a cover is a no-op, except that reaching a MUST_NOT_REACH cover with a true condition is reported (replay of such a cover)
    ($c:expr, $m:expr) => { if $c && $m.starts_with("MUST_NOT_REACH") { eprintln!("REPLAY-MUST-NOT-REACH {}", $m); } };
    ($($t:tt)*) => {};
}

/// `kani::cover!` that also exists natively (as a no-op).
#[cfg(kani)]
#[macro_export]
macro_rules! kani_cover {
    ($($t:tt)*) => { kani::cover!($($t)*) };
}

pub fn any_u8() -> u8 {
    kani::any::<u8>()
}
pub fn any_u16() -> u16 {
    kani::any::<u16>()
}
pub fn any_u32() -> u32 {
    kani::any::<u32>()
}
pub fn any_u64() -> u64 {
    kani::any::<u64>()
}
pub fn any_usize() -> usize {
    kani::any::<usize>()
}
pub fn any_i32() -> i32 {
    any_u32() as i32
}
pub fn any_bool() -> bool {
    any_u8() & 1 == 1
}
pub fn any_f64() -> f64 {
    f64::from_bits(any_u64())
}
/// usize in `0..=max`
pub fn any_upto(max: usize) -> usize {
    let v = any_usize();
    kani::assume(v <= max);
    v
}
pub fn assume(c: bool) {
    kani::assume(c)
}
pub fn any_u8s<const K: usize>() -> [u8; K] {
    core::array::from_fn(|_| any_u8())
}
pub fn any_u32s<const K: usize>() -> [u32; K] {
    core::array::from_fn(|_| any_u32())
}

// ---------------------------------------------------------------------------------------------
// Drop-tracked element types
// ---------------------------------------------------------------------------------------------

pub const MAXID: usize = 48;
/// number of times the value with this id was dropped
pub static mut DROPS: [u8; MAXID] = [0; MAXID];
pub static mut ZDROPS: usize = 0;
pub static mut ZLIVE: usize = 0;

/// Drop-tracked element with identity. Dropping it twice, or observing it after its drop, fails an assertion.
#[derive(Debug)]
pub struct Tr {
    pub id: u8,
}
impl Tr {
    pub fn new(id: usize) -> Tr {
        assert!(id < MAXID);
        Tr { id: id as u8 }
    }
    /// the value is looked at by caller code: must not have been dropped
    pub fn observe(&self) -> u8 {
        unsafe {
            assert!(DROPS[self.id as usize] == 0, "element observed after its drop");
        }
        self.id
    }
}
impl Drop for Tr {
    fn drop(&mut self) {
        unsafe {
            assert!((self.id as usize) < MAXID, "dropped a value that was never created (uninitialised slot)");
            assert!(DROPS[self.id as usize] == 0, "element dropped twice");
            DROPS[self.id as usize] = 1;
        }
    }
}
impl Clone for Tr {
    /// a clone is a *new* value: id + CLONE_OFFSET
    fn clone(&self) -> Tr {
        self.observe();
        Tr::new(self.id as usize + CLONE_OFFSET)
    }
}
pub const CLONE_OFFSET: usize = 16;
pub fn drops(id: usize) -> u8 {
    unsafe { DROPS[id] }
}
/// ids `lo..hi` were each dropped exactly once
pub fn all_dropped_once(lo: usize, hi: usize) -> bool {
    let mut ok = true;
    let mut i = lo;
    while i < hi {
        ok &= drops(i) == 1;
        i += 1;
    }
    ok
}
pub fn none_dropped(lo: usize, hi: usize) -> bool {
    let mut ok = true;
    let mut i = lo;
    while i < hi {
        ok &= drops(i) == 0;
        i += 1;
    }
    ok
}

/// Drop-tracked element with a heap payload: under CBMC a double drop is a double free and a leak is
/// reported by `--memory-leak-check`; under Miri (replay) both are reported natively.
#[derive(Debug)]
pub struct TrBox {
    pub id: u8,
    pub payload: Box<u8>,
}
impl TrBox {
    pub fn new(id: usize) -> TrBox {
        TrBox { id: id as u8, payload: Box::new(id as u8) }
    }
    pub fn observe(&self) -> u8 {
        assert!(*self.payload == self.id);
        self.id
    }
}
impl Drop for TrBox {
    fn drop(&mut self) {
        unsafe {
            assert!(DROPS[self.id as usize] == 0, "element dropped twice");
            DROPS[self.id as usize] = 1;
        }
    }
}

/// Drop-counting zero-sized element.
#[derive(Debug)]
pub struct TrZ;
impl TrZ {
    pub fn new() -> TrZ {
        unsafe { ZLIVE += 1 };
        TrZ
    }
}
impl Drop for TrZ {
    fn drop(&mut self) {
        unsafe {
            assert!(ZLIVE > 0, "more zero-sized elements dropped than created");
            ZLIVE -= 1;
            ZDROPS += 1;
        }
    }
}
pub fn zdrops() -> usize {
    unsafe { ZDROPS }
}
pub fn zlive() -> usize {
    unsafe { ZLIVE }
}

/// 16-byte aligned one-byte payload
#[derive(Clone, Copy, PartialEq, Eq, Debug, Default)]
#[repr(align(16))]
pub struct A16(pub u8);

/// aligned zero-sized type
#[derive(Clone, Copy, PartialEq, Eq, Debug, Default)]
#[repr(align(8))]
pub struct Z8;

/// Build an array of tracked elements with ids `base..base+N`.
pub fn tr_array<N: ArrayLength>(base: usize) -> GenericArray<Tr, N> {
    GenericArray::generate(|i| Tr::new(base + i))
}
pub fn trbox_array<N: ArrayLength>(base: usize) -> GenericArray<TrBox, N> {
    GenericArray::generate(|i| TrBox::new(base + i))
}
pub fn trz_array<N: ArrayLength>() -> GenericArray<TrZ, N> {
    GenericArray::generate(|_| TrZ::new())
}
/// Array of symbolic `u8`s
pub fn any_ga_u8<N: ArrayLength>() -> GenericArray<u8, N> {
    GenericArray::generate(|_| any_u8())
}
pub fn any_ga_u32<N: ArrayLength>() -> GenericArray<u32, N> {
    GenericArray::generate(|_| any_u32())
}

// ---------------------------------------------------------------------------------------------
// call log for order-of-evaluation properties
// ---------------------------------------------------------------------------------------------
pub const LOGCAP: usize = 264;
pub static mut LOG: [u32; LOGCAP] = [0; LOGCAP];
pub static mut LOGN: usize = 0;
pub fn log(v: u32) {
    unsafe {
        assert!(LOGN < LOGCAP);
        LOG[LOGN] = v;
        LOGN += 1;
    }
}
pub fn logn() -> usize {
    unsafe { LOGN }
}
pub fn logat(i: usize) -> u32 {
    unsafe { LOG[i] }
}

// ---------------------------------------------------------------------------------------------
// symbolic element types
// ---------------------------------------------------------------------------------------------
/// Element types with a fully symbolic value and an equality that does not go through the crate.
pub trait Sym: Sized {
    fn sym() -> Self;
    fn same(&self, o: &Self) -> bool;
}
impl Sym for u8 {
    fn sym() -> u8 { any_u8() }
    fn same(&self, o: &u8) -> bool { self == o }
}
impl Sym for u32 {
    fn sym() -> u32 { any_u32() }
    fn same(&self, o: &u32) -> bool { self == o }
}
impl Sym for u64 {
    fn sym() -> u64 { any_u64() }
    fn same(&self, o: &u64) -> bool { self == o }
}
impl Sym for () {
    fn sym() {}
    fn same(&self, _: &()) -> bool { true }
}
impl Sym for (u8, u16) {
    fn sym() -> (u8, u16) { (any_u8(), any_u16()) }
    fn same(&self, o: &Self) -> bool { self.0 == o.0 && self.1 == o.1 }
}
impl Sym for A16 {
    fn sym() -> A16 { A16(any_u8()) }
    fn same(&self, o: &Self) -> bool { self.0 == o.0 }
}
impl Sym for Z8 {
    fn sym() -> Z8 { Z8 }
    fn same(&self, _: &Self) -> bool { true }
}
impl Sym for [u8; 3] {
    fn sym() -> [u8; 3] { [any_u8(), any_u8(), any_u8()] }
    fn same(&self, o: &Self) -> bool { self[0] == o[0] && self[1] == o[1] && self[2] == o[2] }
}
impl Sym for [u64; 3] {
    fn sym() -> [u64; 3] { [any_u64(), any_u64(), any_u64()] }
    fn same(&self, o: &Self) -> bool { self[0] == o[0] && self[1] == o[1] && self[2] == o[2] }
}
pub fn sym_ga<T: Sym, N: ArrayLength>() -> GenericArray<T, N> {
    GenericArray::generate(|_| T::sym())
}
pub fn sym_arr<T: Sym, const K: usize>() -> [T; K] {
    core::array::from_fn(|_| T::sym())
}

/// Address identity is only asserted for arrays that occupy at least one byte: Kani's memory model gives
/// zero-sized objects no stable address (a counterexample on such an address does not reproduce natively).
pub fn zero_sized<T, N: ArrayLength>() -> bool {
    core::mem::size_of::<T>() == 0 || N::USIZE == 0
}

// ---------------------------------------------------------------------------------------------
// formatting without format!: a recording sink and a token element type
// ---------------------------------------------------------------------------------------------
pub const SINKCAP: usize = 96;
pub struct Sink {
    pub buf: [u8; SINKCAP],
    pub len: usize,
    pub calls: usize,
}
impl Sink {
    pub fn new() -> Sink {
        Sink { buf: [0; SINKCAP], len: 0, calls: 0 }
    }
}
impl core::fmt::Write for Sink {
    fn write_str(&mut self, s: &str) -> core::fmt::Result {
        let b = s.as_bytes();
        assert!(self.len + b.len() <= SINKCAP, "sink overflow");
        self.buf[self.len..self.len + b.len()].copy_from_slice(b);
        self.len += b.len();
        self.calls += 1;
        Ok(())
    }
}
/// element whose Debug output is two bytes: `#` and a letter derived from its id (no integer formatting loops)
#[derive(Clone, Copy, PartialEq, Eq)]
pub struct Tok(pub u8);
impl core::fmt::Debug for Tok {
    fn fmt(&self, f: &mut core::fmt::Formatter<'_>) -> core::fmt::Result {
        // a few static tokens: no str slicing at a symbolic index, no integer formatting loops
        f.write_str(match self.0 & 3 {
            0 => "#a",
            1 => "#b",
            2 => "#c",
            _ => "#d",
        })?;
        // ... followed by one token per formatter option the element receives, so that an implementation which builds fresh
        // format arguments for its elements (`write!(f, "{:?}", e)`) is told apart from one that hands its formatter on
        if f.width().is_some() { f.write_str("w")?; }
        if f.precision().is_some() { f.write_str("p")?; }
        if f.sign_plus() { f.write_str("+")?; }
        if f.sign_aware_zero_pad() { f.write_str("0")?; }
        if f.options().get_debug_as_hex().is_some() { f.write_str("x")?; }
        Ok(())
    }
}
