//! C11 - flatten / unflatten regroup elements in row-major order over the same storage.
use crate::common::*;

macro_rules! regroup {
    ($name:ident, $T:ty, $N:ty, $n:literal, $M:ty, $m:literal, $u:literal) => {
        harness! { unwind $u, fn $name() {
            let src: [[$T; $n]; $m] = core::array::from_fn(|_| sym_arr());
            let mk = || -> GenericArray<GenericArray<$T, $N>, $M> {
                GenericArray::generate(|i| GenericArray::generate(|j| { let w = <$T>::sym(); assume(w.same(&src[i][j])); w }))
            };
            let (i, j) = (any_usize(), any_usize());
            assume(i < $m && j < $n);
            let sz = core::mem::size_of::<$T>();
            kani_cover!(i == $m - 1 && j == $n - 1);
            // owned
            let flat = mk().flatten();
            assert!(flat.len() == $n * $m);
            assert!(flat[i * $n + j].same(&src[i][j]), "flatten is not row-major");
            let back: GenericArray<GenericArray<$T, $N>, $M> = flat.unflatten();
            assert!(back[i][j].same(&src[i][j]), "unflatten is not the inverse of flatten");
            // by reference: same memory
            let mut nested = mk();
            let base = &nested as *const _ as usize;
            {
                let f = (&nested).flatten();
                assert!(sz == 0 || f.as_ptr() as usize == base, "flattened view is not over the same storage");
                assert!(f.len() == $n * $m);
                assert!(core::mem::size_of_val(f) == core::mem::size_of_val(&nested), "extent differs");
                assert!(f[i * $n + j].same(&src[i][j]));
                let u: &GenericArray<GenericArray<$T, $N>, $M> = f.unflatten();
                assert!(sz == 0 || u as *const _ as usize == base);
                assert!(u[i][j].same(&src[i][j]));
            }
            let v = <$T>::sym();
            let v2 = <$T>::sym();
            assume(v.same(&v2));
            {
                let f = (&mut nested).flatten();
                assert!(sz == 0 || f.as_ptr() as usize == base);
                f[i * $n + j] = v;
            }
            assert!(nested[i][j].same(&v2), "write through the flattened view not visible in the nested array");
            let w = <$T>::sym();
            let w2 = <$T>::sym();
            assume(w.same(&w2));
            let mut flat2 = nested.flatten();
            let fbase = flat2.as_ptr() as usize;
            {
                let u: &mut GenericArray<GenericArray<$T, $N>, $M> = (&mut flat2).unflatten();
                assert!(sz == 0 || u as *const _ as usize == fbase);
                u[i][j] = w;
            }
            assert!(flat2[i * $n + j].same(&w2), "write through the unflattened view not visible in the flat array");
        }}
    };
}
/// degenerate shapes (some dimension 0)
macro_rules! regroup_empty {
    ($name:ident, $T:ty, $N:ty, $n:literal, $M:ty, $m:literal, $u:literal) => {
        harness! { unwind $u, fn $name() {
            let mut nested: GenericArray<GenericArray<$T, $N>, $M> = GenericArray::generate(|_| sym_ga());
            {
                let f = (&nested).flatten();
                assert!(f.len() == 0);
            }
            {
                let f = (&mut nested).flatten();
                assert!(f.len() == 0, "flattened &mut view of an empty shape is not empty");
            }
            let flat = nested.flatten();
            assert!(flat.len() == $n * $m && flat.len() == 0);
        }}
    };
}

pub mod q {
    use crate::common::*;
    regroup!(u8_1_1, u8, U1, 1, U1, 1, 6);
    regroup!(u8_2_3, u8, U2, 2, U3, 3, 10);
    regroup!(u8_3_2, u8, U3, 3, U2, 2, 10);
    regroup!(u32_2_2, u32, U2, 2, U2, 2, 8);
    regroup!(unit_2_2, (), U2, 2, U2, 2, 8);
    regroup!(u8_4_1, u8, U4, 4, U1, 1, 8);
}
/// empty shapes (N = 0 and / or M = 0): "for all N, M" includes them - that these calls type-check at all is part of the property, so they
/// live behind a cargo feature of their own (a rejection by the compiler is then reported for C11 instead of breaking every harness)
#[cfg(feature = "c11")]
pub mod degenerate {
    pub mod q {
        use crate::common::*;
        regroup_empty!(u8_0_3, u8, U0, 0, U3, 3, 6);
        regroup_empty!(u8_2_0, u8, U2, 2, U0, 0, 6);
        regroup_empty!(u8_0_0, u8, U0, 0, U0, 0, 6);
    }
    pub mod t {
        use crate::common::*;
        regroup_empty!(unit_0_2, (), U0, 0, U2, 2, 6);
        regroup_empty!(u32_3_0, u32, U3, 3, U0, 0, 6);
        regroup_empty!(u8_0_1, u8, U0, 0, U1, 1, 6);
        regroup_empty!(u8_1_0, u8, U1, 1, U0, 0, 6);
    }
}
pub mod t {
    use crate::common::*;
    regroup!(u8_1_4, u8, U1, 1, U4, 4, 8);
    regroup!(u8_2_2, u8, U2, 2, U2, 2, 8);
    regroup!(u8_3_3, u8, U3, 3, U3, 3, 13);
    regroup!(u8_4_4, u8, U4, 4, U4, 4, 20);
    regroup!(u8_5_2, u8, U5, 5, U2, 2, 14);
    regroup!(u8_2_6, u8, U2, 2, U6, 6, 16);
    regroup!(u8_6_6, u8, U6, 6, U6, 6, 40);
    regroup!(u8_1_16, u8, U1, 1, U16, 16, 20);
    regroup!(u8_16_1, u8, U16, 16, U1, 1, 20);
    regroup!(u8_4_8, u8, U4, 4, U8, 8, 36);
    regroup!(u32_3_2, u32, U3, 3, U2, 2, 10);
    regroup!(pad_2_3, (u8, u16), U2, 2, U3, 3, 10);
    regroup!(unit_3_3, (), U3, 3, U3, 3, 13);
}
