//! C18 (K part) - real `const` items over the lattice, compared with the same call at run time.
//! The compiler's const evaluator accepting these items is the *compiler's* verdict (a rejection shows up
//! as a build error of this crate, reported as exit 2); the solver's part is value agreement at a
//! symbolic index.  Engine M executes the CTFE bodies symbolically (all N, all slice lengths).
use crate::common::*;
use const_default::ConstDefault;
use core::mem::MaybeUninit;

/// copy a slice into a fixed array inside the const evaluator (plain values: Kani derives the length of a
/// `const` slice that points into a larger allocation from the allocation size, so const *slices* are never
/// inspected directly by a harness - only arrays and integers computed from them at compile time)
pub const fn copy<const L: usize>(s: &[u8]) -> [u8; L] {
    let mut a = [0u8; L];
    let mut i = 0;
    while i < s.len() { a[i] = s[i]; i += 1; }
    a
}
macro_rules! const_items {
    ($name:ident, $N:ty, $n:literal, $l:literal, $u:literal) => {
        pub mod $name {
            use super::*;
            pub const SRC: [u8; $l] = { let mut a = [0u8; $l]; let mut i = 0; while i < $l { a[i] = (i as u8).wrapping_mul(37).wrapping_add(11); i += 1; } a };
            pub const LEN: usize = GenericArray::<u8, $N>::len();
            const CHUNKS: (&[GenericArray<u8, $N>], &[u8]) = GenericArray::<u8, $N>::chunks_from_slice(&SRC);
            const FLAT: &[u8] = GenericArray::<u8, $N>::slice_from_chunks(CHUNKS.0);
            const NATIVE: &[[u8; $n]] = GenericArray::<u8, $N>::into_chunks(CHUNKS.0);
            const BACK: &[GenericArray<u8, $N>] = GenericArray::<u8, $N>::from_chunks(NATIVE);
            const FROM: &GenericArray<u8, $N> = GenericArray::<u8, $N>::from_slice(SRC.split_at($n).0);
            // everything below is plain data computed by the const evaluator
            pub const LENS: [usize; 6] = [CHUNKS.0.len(), CHUNKS.1.len(), FLAT.len(), NATIVE.len(), BACK.len(), FROM.as_slice().len()];
            pub const FLAT_A: [u8; $l] = copy(FLAT);
            pub const REM_A: [u8; $l] = copy(CHUNKS.1);
            pub const CHUNK_A: [u8; $l] = { let mut a = [0u8; $l]; let mut c = 0; while c < CHUNKS.0.len() { let mut j = 0; while j < $n { a[c * $n + j] = CHUNKS.0[c].as_slice()[j]; j += 1; } c += 1; } a };
            pub const NATIVE_A: [u8; $l] = { let mut a = [0u8; $l]; let mut c = 0; while c < NATIVE.len() { let mut j = 0; while j < $n { a[c * $n + j] = NATIVE[c][j]; j += 1; } c += 1; } a };
            pub const BACK_A: [u8; $l] = { let mut a = [0u8; $l]; let mut c = 0; while c < BACK.len() { let mut j = 0; while j < $n { a[c * $n + j] = BACK[c].as_slice()[j]; j += 1; } c += 1; } a };
            pub const FROM_A: [u8; $l] = copy(FROM.as_slice());
            pub const TRY_OK: bool = GenericArray::<u8, $N>::try_from_slice(SRC.split_at($n).0).is_ok();
            pub const TRY_BAD: bool = GenericArray::<u8, $N>::try_from_slice(SRC.split_at($n + 1).0).is_err();
            pub const HEAD: [u8; $n] = { let mut a = [0u8; $n]; let mut i = 0; while i < $n { a[i] = SRC[i]; i += 1; } a };
            pub const FROM_ARRAY: GenericArray<u8, $N> = GenericArray::from_array(HEAD);
            pub const INTO_ARRAY: [u8; $n] = FROM_ARRAY.into_array();
            pub const UNINIT_INIT: GenericArray<u8, $N> = unsafe {
                let mut u: GenericArray<MaybeUninit<u8>, $N> = GenericArray::<u8, $N>::uninit();
                let s = u.as_mut_slice();
                let mut i = 0;
                while i < $n { s[i] = MaybeUninit::new(SRC[i]); i += 1; }
                GenericArray::assume_init(u)
            };
            pub const DEFAULT: GenericArray<u8, $N> = GenericArray::<u8, $N>::const_default();
            pub const REPEAT: GenericArray<u8, $N> = arr![0xA5; $N];
            pub const fn mutate() -> [u8; $l] {
                let mut raw = SRC;
                {
                    let (c, r) = GenericArray::<u8, $N>::chunks_from_slice_mut(&mut raw);
                    if !c.is_empty() { let last = c.len() - 1; c[last].as_mut_slice()[$n - 1] = 0xEE; }
                    if !r.is_empty() { r[0] = 0xDD; }
                    let flat = GenericArray::<u8, $N>::slice_from_chunks_mut(c);
                    if !flat.is_empty() { flat[0] = 0xCC; }
                }
                {
                    let m = GenericArray::<u8, $N>::from_mut_slice(raw.split_at_mut($n).0);
                    if $n > 1 { m.as_mut_slice()[1] = 0xBB; }
                }
                raw
            }
            pub const MUTATED: [u8; $l] = mutate();

            harness! { unwind $u, fn agrees() {
                let src = SRC;
                assert!(LEN == $n);
                // the same calls at run time
                let (c, r) = GenericArray::<u8, $N>::chunks_from_slice(&src);
                let flat = GenericArray::<u8, $N>::slice_from_chunks(c);
                let native: &[[u8; $n]] = GenericArray::<u8, $N>::into_chunks(c);
                let back = GenericArray::<u8, $N>::from_chunks(native);
                let from = GenericArray::<u8, $N>::from_slice(&src[..$n]);
                assert!(LENS[0] == c.len() && LENS[1] == r.len() && LENS[2] == flat.len() && LENS[3] == native.len() && LENS[4] == back.len() && LENS[5] == from.len(),
                        "const evaluation yields other lengths than run time");
                assert!(c.len() == $l / $n && r.len() == $l % $n && flat.len() == c.len() * $n);
                let i = any_upto($l - 1);
                if i < c.len() * $n {
                    assert!(CHUNK_A[i] == c[i / $n][i % $n] && c[i / $n][i % $n] == src[i], "const chunk contents differ from run time");
                    assert!(FLAT_A[i] == flat[i] && NATIVE_A[i] == native[i / $n][i % $n] && BACK_A[i] == back[i / $n][i % $n]);
                } else {
                    assert!(REM_A[i - c.len() * $n] == r[i - c.len() * $n] && r[i - c.len() * $n] == src[i], "const remainder differs from run time");
                }
                assert!(TRY_OK && TRY_BAD);
                assert!(GenericArray::<u8, $N>::try_from_slice(&src[..$n]).is_ok() && GenericArray::<u8, $N>::try_from_slice(&src[..$n + 1]).is_err());
                let j = any_upto($n - 1);
                assert!(FROM_A[j] == from[j] && from[j] == src[j]);
                assert!(FROM_ARRAY[j] == src[j] && INTO_ARRAY[j] == src[j] && UNINIT_INIT[j] == src[j]);
                assert!(DEFAULT[j] == 0 && DEFAULT[j] == GenericArray::<u8, $N>::default()[j]);
                assert!(REPEAT[j] == 0xA5);
                let m = mutate();
                assert!(MUTATED[i] == m[i], "const evaluation of the mutable chunk functions differs from run time");
                kani_cover!(i == $l - 1);
            }}
        }
    };
}
/// N = 0 and zero-sized elements
pub mod degenerate {
    use super::*;
    const EMPTY: (&[GenericArray<u8, U0>], &[u8]) = GenericArray::<u8, U0>::chunks_from_slice(&[]);
    const E0: &GenericArray<u32, U0> = GenericArray::<u32, U0>::from_slice(&[]);
    const UNITS: (&[GenericArray<(), U3>], &[()]) = GenericArray::<(), U3>::chunks_from_slice(&[(); 8]);
    const PAD: (&[GenericArray<(u8, u16), U2>], &[(u8, u16)]) = GenericArray::<(u8, u16), U2>::chunks_from_slice(&[(1, 2), (3, 4), (5, 6)]);
    const W: (&[GenericArray<u32, U2>], &[u32]) = GenericArray::<u32, U2>::chunks_from_slice(&[1, 2, 3, 4, 5]);
    const Z3: &[GenericArray<u8, U0>] = GenericArray::<u8, U0>::from_chunks(&[[0u8; 0]; 3]);
    const Z3B: &[[u8; 0]] = GenericArray::<u8, U0>::into_chunks(Z3);
    const WFLAT: &[u32] = GenericArray::<u32, U2>::slice_from_chunks(W.0);
    const PFLAT: &[(u8, u16)] = GenericArray::<(u8, u16), U2>::slice_from_chunks(PAD.0);
    const UFLAT: &[()] = GenericArray::<(), U3>::slice_from_chunks(UNITS.0);
    pub const MORE: [usize; 6] = [Z3.len(), Z3B.len(), WFLAT.len(), PFLAT.len(), UFLAT.len(), WFLAT[3] as usize];
    pub const LENS: [usize; 9] = [EMPTY.0.len(), EMPTY.1.len(), E0.as_slice().len(), UNITS.0.len(), UNITS.1.len(), PAD.0.len(), PAD.1.len(), W.0.len(), W.1.len()];
    pub const VALS: [u32; 4] = [PAD.0[0].as_slice()[1].1 as u32, PAD.1[0].0 as u32, W.0[1].as_slice()[0], W.1[0]];
    // const_transmute between types of equal size and *different alignment* (the const evaluator checks the alignment of every read), and the
    // repeat form of arr! for a length that has no `Const<N>` counterpart (beyond 1024)
    pub const WORD: u32 = unsafe { generic_array::const_transmute::<[u8; 4], u32>([0x11, 0x22, 0x33, 0x44]) };
    pub const WORDS: GenericArray<u32, U2> = unsafe { generic_array::const_transmute::<GenericArray<u8, U8>, GenericArray<u32, U2>>(GenericArray::from_array([1, 2, 3, 4, 5, 6, 7, 8])) };
    pub const BYTES: GenericArray<u8, U8> = unsafe { generic_array::const_transmute::<GenericArray<u64, U1>, GenericArray<u8, U8>>(GenericArray::from_array([0x0807060504030201u64])) };
    const LONG: GenericArray<u8, generic_array::typenum::Sum<U1024, U1>> = arr![0x5A; generic_array::typenum::Sum<U1024, U1>];
    // the fallible reinterpretation for N = 0: an empty slice is accepted, a non-empty one is refused (not a panic of the const evaluator)
    pub const TRY0: [bool; 4] = [GenericArray::<u32, U0>::try_from_slice(&[]).is_ok(), GenericArray::<u32, U0>::try_from_slice(&[1, 2]).is_err(),
                                 GenericArray::<u8, U0>::try_from_slice(&[]).is_ok(), GenericArray::<(), U0>::try_from_slice(&[()]).is_err()];
    // "for every length": the constant default of a 1 MiB array is assembled from log2(N) nested constants; an implementation that visits the
    // N slots one by one in the const evaluator exceeds its step budget (deny-by-default lint `long_running_const_eval`) and valid user
    // items such as `static BUF: GenericArray<u8, U1048576> = GenericArray::const_default();` are rejected
    pub const HUGE_DEFAULT_ENDS: [u8; 3] = {
        let a = GenericArray::<u8, generic_array::typenum::U1048576>::const_default();
        let s = a.as_slice();
        [s[0], s[1048575], (s.len() == 1048576) as u8]
    };
    // the same "for every length" for the type-level repeat form: 2^20 copies cost the const evaluator O(1) steps, not one loop iteration per slot
    pub const HUGE_REPEAT_ENDS: [u8; 3] = {
        let a: GenericArray<u8, generic_array::typenum::U1048576> = arr![0xa5; generic_array::typenum::U1048576];
        let s = a.as_slice();
        [s[0], s[1048575], (s.len() == 1048576) as u8]
    };
    // writing through the mutable chunk views inside the const evaluator (a `&mut` view derived from a shared reborrow is rejected there: E0080)
    pub const CHUNK_WRITES: [u8; 4] = {
        let mut raw = [[1u8, 2], [3, 4]];
        { let g: &mut [GenericArray<u8, U2>] = GenericArray::from_chunks_mut(&mut raw); g[1].as_mut_slice()[0] = 9; }
        let mut ga: [GenericArray<u8, U2>; 2] = [GenericArray::from_array([5, 6]), GenericArray::from_array([7, 8])];
        { let n: &mut [[u8; 2]] = GenericArray::into_chunks_mut(&mut ga); n[0][1] = 0; }
        [raw[1][0], raw[0][0], ga[0].as_slice()[1], ga[1].as_slice()[1]]
    };
    // the constant-length repeat form inside a length-generic const fn / associated const (the length mentions a generic parameter)
    pub const fn splat<const K: usize>(x: u8) -> GenericArray<u8, generic_array::ConstArrayLength<K>>
    where
        generic_array::typenum::Const<K>: generic_array::IntoArrayLength,
    {
        arr![x; { K }]
    }
    pub const SPLAT5: GenericArray<u8, U5> = splat::<5>(0xA5);
    pub const LONG_ENDS: [u8; 3] = [LONG.as_slice()[0], LONG.as_slice()[1024], (LONG.as_slice().len() == 1025) as u8];
    harness! { unwind 6, fn big_and_written_const_items() {
        let i = any_upto(2);
        assert!(HUGE_REPEAT_ENDS[i] == [0xa5, 0xa5, 1][i], "arr![x; U1048576] in a const item");
        let j = any_upto(3);
        assert!(CHUNK_WRITES[j] == [9, 1, 0, 8][j], "writes through from_chunks_mut / into_chunks_mut inside a const item");
        kani_cover!(true);
    }}
    harness! { unwind 6, fn transmutes() {
        assert!(WORD == u32::from_ne_bytes([0x11, 0x22, 0x33, 0x44]), "const_transmute to a more aligned type differs from the bytes");
        let i = any_upto(1);
        assert!(WORDS[i] == u32::from_ne_bytes([4 * i as u8 + 1, 4 * i as u8 + 2, 4 * i as u8 + 3, 4 * i as u8 + 4]));
        let j = any_upto(7);
        assert!(BYTES[j] == 0x0807060504030201u64.to_ne_bytes()[j]);
        let rt: u32 = unsafe { generic_array::const_transmute::<[u8; 4], u32>([0x11, 0x22, 0x33, 0x44]) };
        assert!(rt == WORD, "const_transmute at run time differs from the const item");
        assert!(LONG_ENDS[0] == 0x5A && LONG_ENDS[1] == 0x5A && LONG_ENDS[2] == 1);
        assert!(HUGE_DEFAULT_ENDS[0] == 0 && HUGE_DEFAULT_ENDS[1] == 0 && HUGE_DEFAULT_ENDS[2] == 1, "const_default() of a 1 MiB array");
        let s5 = any_upto(4);
        assert!(SPLAT5[s5] == 0xA5 && splat::<5>(0xA5)[s5] == SPLAT5[s5], "arr![x; {{ K }}] in a const fn differs between const item and run time");
        let t = any_upto(3);
        assert!(TRY0[t], "try_from_slice for N = 0 in a const item: empty accepted, non-empty refused");
        assert!(GenericArray::<u32, U0>::try_from_slice(&[]).is_ok() && GenericArray::<u32, U0>::try_from_slice(&[1, 2]).is_err());
        kani_cover!(true);
    }}
    harness! { unwind 6, fn agrees() {
        let i = any_upto(8);
        let want: [usize; 9] = [0, 0, 0, 2, 2, 1, 1, 2, 1];
        assert!(LENS[i] == want[i], "const chunking of a degenerate case differs");
        let j = any_upto(3);
        let wv: [u32; 4] = [4, 5, 3, 5];
        assert!(VALS[j] == wv[j]);
        let (c, r) = GenericArray::<(), U3>::chunks_from_slice(&[(); 8]);
        assert!(c.len() == LENS[3] && r.len() == LENS[4]);
        let k = any_upto(5);
        let wm: [usize; 6] = [3, 3, 4, 2, 6, 4];
        assert!(MORE[k] == wm[k], "const from_chunks / slice_from_chunks of a degenerate or multi-byte case differs");
        let raw = [[0u8; 0]; 3];
        assert!(GenericArray::<u8, U0>::from_chunks(&raw).len() == 3, "from_chunks loses the outer length for N = 0");
        let w = [1u32, 2, 3, 4, 5];
        let (wc, _) = GenericArray::<u32, U2>::chunks_from_slice(&w);
        assert!(GenericArray::<u32, U2>::slice_from_chunks(wc).len() == 4);
        kani_cover!(true);
    }}
}
pub mod q {
    use super::*;
    const_items!(n1, U1, 1, 5, 8);
    const_items!(n3, U3, 3, 11, 14);
    const_items!(n8, U8, 8, 26, 29);
}
pub mod t {
    use super::*;
    const_items!(n2, U2, 2, 8, 11);
    const_items!(n7, U7, 7, 23, 26);
    const_items!(n16, U16, 16, 50, 53);
}
