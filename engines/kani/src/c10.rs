//! C10 - chunk regrouping partitions a slice exactly, without copying.
use crate::common::*;

pub fn chunks<T: Sym, N: ArrayLength, const R: usize>() {
    let n = N::USIZE;
    let mut raw: [T; R] = sym_arr();
    let l = any_upto(R);
    let base = raw.as_ptr() as usize;
    let sz = core::mem::size_of::<T>();
    assert!(n > 0);
    kani_cover!(l % n == 0 && l > 0 || R < n);
    kani_cover!(l % n == n - 1);
    kani_cover!(l == R);
    let mutable = any_bool();
    let i = any_usize();
    assume(i < l || l == 0);
    if !mutable {
        let s = &raw[..l];
        let (c, r) = GenericArray::<T, N>::chunks_from_slice(s);
        assert!(c.len() == l / n, "wrong number of chunks");
        assert!(r.len() == l % n, "wrong remainder length");
        if sz > 0 {
            if c.len() > 0 { assert!(c.as_ptr() as usize == base, "chunks do not start at the slice"); }
            if r.len() > 0 { assert!(r.as_ptr() as usize == base + c.len() * n * sz, "remainder not adjacent to the chunks"); }
        }
        if l > 0 {
            // element i of the source is found at the same address in exactly one part
            if i < c.len() * n {
                let e = &c[i / n][i % n];
                assert!(sz == 0 || e as *const T as usize == base + i * sz);
                assert!(e.same(&raw[i]));
            } else {
                let e = &r[i - c.len() * n];
                assert!(sz == 0 || e as *const T as usize == base + i * sz);
                assert!(e.same(&raw[i]));
            }
        }
        // inverse
        let flat = GenericArray::<T, N>::slice_from_chunks(c);
        assert!(flat.len() == c.len() * n);
        assert!(sz == 0 || flat.is_empty() || flat.as_ptr() as usize == base);
    } else {
        let v = T::sym();
        let v2 = T::sym();
        assume(v.same(&v2));
        {
            let s = &mut raw[..l];
            let (c, r) = GenericArray::<T, N>::chunks_from_slice_mut(s);
            assert!(c.len() == l / n && r.len() == l % n);
            if sz > 0 {
                if c.len() > 0 { assert!(c.as_ptr() as usize == base); }
                if r.len() > 0 { assert!(r.as_ptr() as usize == base + c.len() * n * sz); }
            }
            if l > 0 {
                if i < c.len() * n { c[i / n][i % n] = v; } else { r[i - c.len() * n] = v; }
            }
            let cl = c.len();
            let flat = GenericArray::<T, N>::slice_from_chunks_mut(c);
            assert!(flat.len() == cl * n);
        }
        if l > 0 { assert!(raw[i].same(&v2), "write through the chunk view not visible in the source"); }
    }
}

/// N = 0: empty slice gives two empty results
pub fn chunks_n0_empty<T: Sym, N: ArrayLength, const R: usize>() {
    let mut raw: [T; R] = sym_arr();
    let (c, r) = GenericArray::<T, U0>::chunks_from_slice(&raw[..0]);
    assert!(c.is_empty() && r.is_empty());
    let (c, r) = GenericArray::<T, U0>::chunks_from_slice_mut(&mut raw[..0]);
    assert!(c.is_empty() && r.is_empty());
}
/// N = 0 and a non-empty slice: panics
pub fn chunks_n0_panics<T: Sym, N: ArrayLength, const R: usize>() {
    let mut raw: [T; R] = sym_arr();
    let l = any_upto(R);
    assume(l > 0);
    if any_bool() {
        let (c, r) = GenericArray::<T, U0>::chunks_from_slice(&raw[..l]);
        kani_cover!(true, "MUST_NOT_REACH: chunks_from_slice::<U0> returned for a non-empty slice");
    } else {
        let (c, r) = GenericArray::<T, U0>::chunks_from_slice_mut(&mut raw[..l]);
        kani_cover!(true, "MUST_NOT_REACH: chunks_from_slice_mut::<U0> returned for a non-empty slice");
    }
}

/// from_chunks / into_chunks (and _mut): same address, same count, element correspondence
macro_rules! native_chunks {
    ($name:ident, $T:ty, $N:ty, $n:literal, $c:literal, $u:literal) => {
        harness! { unwind $u, fn $name() {
            let mut raw: [[$T; $n]; $c] = core::array::from_fn(|_| sym_arr());
            let l = any_upto($c);
            let base = raw.as_ptr() as usize;
            let sz = core::mem::size_of::<$T>() * $n;
            let (i, j) = (any_usize(), any_usize());
            assume((l == 0 || i < l) && ($n == 0 || j < $n));
            {
                let g: &[GenericArray<$T, $N>] = GenericArray::from_chunks(&raw[..l]);
                assert!(g.len() == l);
                assert!(sz == 0 || l == 0 || g.as_ptr() as usize == base);
                if l > 0 && $n > 0 { assert!(g[i][j].same(&raw[i][j])); }
                let back: &[[$T; $n]] = GenericArray::into_chunks(g);
                assert!(back.len() == l && (sz == 0 || l == 0 || back.as_ptr() as usize == base));
            }
            let v = <$T>::sym();
            let v2 = <$T>::sym();
            assume(v.same(&v2));
            {
                let g: &mut [GenericArray<$T, $N>] = GenericArray::from_chunks_mut(&mut raw[..l]);
                assert!(g.len() == l);
                if l > 0 && $n > 0 { g[i][j] = v; }
                let back: &mut [[$T; $n]] = GenericArray::into_chunks_mut(g);
                assert!(back.len() == l && (sz == 0 || l == 0 || back.as_ptr() as usize == base));
            }
            if l > 0 && $n > 0 { assert!(raw[i][j].same(&v2)); }
        }}
    };
}

pub mod q {
    pub mod chunks {
        use super::super::chunks;
        use crate::common::*;
        lattice! { chunks;
            u8_n1: <u8, U1, 7> unwind 10;
            u8_n2: <u8, U2, 11> unwind 14;
            u8_n3: <u8, U3, 15> unwind 18;
            u32_n2: <u32, U2, 11> unwind 14;
            u32_n3: <u32, U3, 15> unwind 18;
            unit_n3: <(), U3, 15> unwind 18;
            pad_n2: <(u8, u16), U2, 11> unwind 14;
        }
    }
    pub mod chunks_n0_empty {
        use super::super::chunks_n0_empty;
        use crate::common::*;
        lattice! { chunks_n0_empty; u8_: <u8, U0, 3> unwind 6; unit_: <(), U0, 3> unwind 6; }
    }
    pub mod chunks_n0_panics {
        use super::super::chunks_n0_panics;
        use crate::common::*;
        lattice_panics! { chunks_n0_panics; u8_: <u8, U0, 3> unwind 6; u32_: <u32, U0, 3> unwind 6; }
    }
    pub mod native {
        use crate::common::*;
        native_chunks!(u8_3x3, u8, U3, 3, 3, 8);
        native_chunks!(u32_2x4, u32, U2, 2, 4, 8);
        native_chunks!(u8_0x3, u8, U0, 0, 3, 8);
        native_chunks!(unit_2x3, (), U2, 2, 3, 8);
    }
}
pub mod t {
    pub mod chunks {
        use super::super::chunks;
        use crate::common::*;
        lattice! { chunks;
            u8_n4: <u8, U4, 19> unwind 22;
            u8_n5: <u8, U5, 23> unwind 26;
            u8_n7: <u8, U7, 31> unwind 34;
            u8_n8: <u8, U8, 35> unwind 38;
            u8_n16: <u8, U16, 67> unwind 70;
            u32_n1: <u32, U1, 7> unwind 10;
            u32_n7: <u32, U7, 31> unwind 34;
            u32_n8: <u32, U8, 35> unwind 38;
            unit_n1: <(), U1, 7> unwind 10;
            unit_n8: <(), U8, 35> unwind 38;
            pad_n3: <(u8, u16), U3, 15> unwind 18;
            a16_n2: <A16, U2, 11> unwind 14;
        }
    }
    pub mod chunks_n0_panics {
        use super::super::chunks_n0_panics;
        use crate::common::*;
        lattice_panics! { chunks_n0_panics; unit_: <(), U0, 3> unwind 6; pad_: <(u8, u16), U0, 5> unwind 8; }
    }
    pub mod native {
        use crate::common::*;
        native_chunks!(u8_1x5, u8, U1, 1, 5, 10);
        native_chunks!(u8_8x3, u8, U8, 8, 3, 12);
        native_chunks!(u32_7x2, u32, U7, 7, 2, 11);
        native_chunks!(pad_3x3, (u8, u16), U3, 3, 3, 8);
    }
}
