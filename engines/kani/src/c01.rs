//! C01 - memory layout identical to `[T; N]` (K part: validation of engine L's layout model against rustc,
//! plus element addresses at a symbolic index on compiled code).
use crate::common::*;
use const_default::ConstDefault;

pub fn layout<T: Sym, N: ArrayLength, const R: usize>() {
    let n = N::USIZE;
    let (sz, al) = (core::mem::size_of::<T>(), core::mem::align_of::<T>());
    assert!(core::mem::size_of::<GenericArray<T, N>>() == n * sz, "size differs from [T; N]");
    assert!(core::mem::align_of::<GenericArray<T, N>>() == al, "alignment differs from [T; N]");
    let a: GenericArray<T, N> = sym_ga();
    let base = &a as *const GenericArray<T, N> as usize;
    assert!(base % al == 0);
    assert!(core::mem::size_of_val(a.as_slice()) == core::mem::size_of_val(&a), "slice view has a different extent than the array");
    if n > 0 {
        let i = any_upto(n - 1);
        if sz > 0 {
            assert!(&a[i] as *const T as usize == base + i * sz, "element i is not at byte offset i * size_of::<T>()");
            assert!(&a.as_slice()[i] as *const T as usize == base + i * sz);
            // stays inside the array
            assert!(base + i * sz + sz <= base + core::mem::size_of::<GenericArray<T, N>>());
        }
    }
    kani_cover!(true);
}

/// viewing as a native array keeps every element (no padding read): compare with a by-element copy
macro_rules! native_view {
    ($name:ident, $T:ty, $N:ty, $n:literal, $u:literal) => {
        harness! { unwind $u, fn $name() {
            let src: [$T; $n] = sym_arr();
            let a: GenericArray<$T, $N> = GenericArray::generate(|i| { let w = <$T>::sym(); assume(w.same(&src[i])); w });
            let r: &[$T; $n] = a.as_ref();
            assert!(core::mem::size_of::<[$T; $n]>() == core::mem::size_of::<GenericArray<$T, $N>>());
            assert!(core::mem::align_of::<[$T; $n]>() == core::mem::align_of::<GenericArray<$T, $N>>());
            if $n > 0 {
                let i = any_upto($n - ($n > 0) as usize);
                assert!(r[i].same(&src[i]), "native-array view shows a different element");
                assert!(core::mem::size_of::<$T>() == 0 || &r[i] as *const $T as usize == &a[i] as *const $T as usize);
            }
            kani_cover!(true);
        }}
    };
}

/// ConstDefault-built arrays read back through the slice view
pub fn const_default_view<T, N: ArrayLength, const R: usize>()
where
    GenericArray<crate::c19::ZD, N>: ConstDefault,
{
    use crate::c19::ZD;
    let n = N::USIZE;
    let a = GenericArray::<ZD, N>::const_default();
    let s = a.as_slice();
    assert!(s.len() == n);
    if n > 0 {
        let i = any_upto(n - 1);
        assert!(s[i].a == ZD::DEFAULT.a && s[i].b == ZD::DEFAULT.b);
    }
    kani_cover!(true);
}

macro_rules! c01_lattice {
    ($body:ident; $($name:ident: $T:ty, $N:ty, $u:literal;)*) => {
        pub mod $body {
            use super::super::$body;
            use crate::common::*;
            lattice! { $body; $($name: <$T, $N, 0> unwind $u;)* }
        }
    };
}
pub mod q {
    c01_lattice! { layout;
        u8_n0: u8, U0, 3; u8_n1: u8, U1, 4; u8_n2: u8, U2, 5; u8_n3: u8, U3, 6; u8_n5: u8, U5, 8; u8_n8: u8, U8, 11;
        u32_n0: u32, U0, 3; u32_n3: u32, U3, 6; u32_n7: u32, U7, 10;
        u64_n4: u64, U4, 7;
        pad_n0: (u8, u16), U0, 3; pad_n3: (u8, u16), U3, 6; pad_n6: (u8, u16), U6, 9;
        a16_n0: A16, U0, 3; a16_n1: A16, U1, 4; a16_n5: A16, U5, 8;
        z8_n0: Z8, U0, 3; z8_n3: Z8, U3, 6;
        unit_n0: (), U0, 3; unit_n4: (), U4, 7;
        b3_n5: [u8; 3], U5, 8;
        w24_n3: [u64; 3], U3, 6;
    }
    c01_lattice! { const_default_view; n0: (), U0, 3; n5: (), U5, 8; n6: (), U6, 9; }
    pub mod native_view {
        use crate::common::*;
        native_view!(u8_5, u8, U5, 5, 9);
        native_view!(pad_3, (u8, u16), U3, 3, 7);
        native_view!(a16_2, A16, U2, 2, 6);
        native_view!(nested_2, [u8; 3], U2, 2, 6);
        native_view!(unit_0, (), U0, 0, 4);
    }
}
pub mod t {
    c01_lattice! { layout;
        u8_n4: u8, U4, 7; u8_n6: u8, U6, 9; u8_n7: u8, U7, 10; u8_n9: u8, U9, 12; u8_n15: u8, U15, 18; u8_n16: u8, U16, 19; u8_n17: u8, U17, 20;
        u8_n31: u8, U31, 34; u8_n32: u8, U32, 35; u8_n33: u8, U33, 36; u8_n63: u8, U63, 66; u8_n64: u8, U64, 67; u8_n65: u8, U65, 68;
        u32_n1: u32, U1, 4; u32_n8: u32, U8, 11; u32_n17: u32, U17, 20;
        pad_n1: (u8, u16), U1, 4; pad_n7: (u8, u16), U7, 10; pad_n16: (u8, u16), U16, 19;
        a16_n2: A16, U2, 5; a16_n7: A16, U7, 10; a16_n8: A16, U8, 11;
        z8_n1: Z8, U1, 4; z8_n8: Z8, U8, 11;
        b3_n7: [u8; 3], U7, 10;
        w24_n6: [u64; 3], U6, 9;
    }
    c01_lattice! { const_default_view; n1: (), U1, 4; n8: (), U8, 11; n17: (), U17, 20; }
    pub mod native_view {
        use crate::common::*;
        native_view!(u8_17, u8, U17, 17, 21);
        native_view!(pad_8, (u8, u16), U8, 8, 12);
        native_view!(a16_5, A16, U5, 5, 9);
        native_view!(w24_3, [u64; 3], U3, 3, 7);
    }
}
