//! C08 - generate/map/zip/fold/clone/default apply the function once per index, in ascending order,
//! for every receiver/argument form and both the drop-aware and the no-drop code paths.
use crate::common::*;

/// the k-th call received argument `k` (for every k, via a symbolic witness) and there were exactly n calls
fn log_is_identity(n: usize) {
    assert!(logn() == n, "function not called exactly N times");
    if n > 0 {
        let k = any_upto(n - 1);
        assert!(logat(k) as usize == k, "function not called in ascending index order");
    }
}
fn reset_log() {
    unsafe { LOGN = 0 };
}

/// element value at index i (symbolic salt, distinct per index)
fn val(salt: u32, i: usize) -> u32 {
    salt.wrapping_add((i as u32).wrapping_mul(0x01000193))
}

/// `map` into an element type of another size / alignment, through every receiver form (an implementation that reuses the source's storage
/// or block has to pick a direction; the caller's function must still see a[0], a[1], ... in that order and result i must land in slot i)
fn map_via<U, N: ArrayLength, F: FnMut(u32) -> U>(a: GenericArray<u32, N>, form: usize, mut f: F) -> GenericArray<U, N> {
    match form {
        0 => a.map(f),
        1 => (&a).map(|x| f(*x)),
        2 => { let mut a = a; (&mut a).map(|x| f(*x)) }
        _ => { let b: Box<GenericArray<u32, N>> = Box::new(a); *b.map(f) }
    }
}
pub fn resizing_map<T, N: ArrayLength, const R: usize>() {
    let n = N::USIZE;
    let salt = any_u32();
    let a: GenericArray<u32, N> = GenericArray::generate(|i| val(salt, i));
    let form = any_upto(3);
    let shape = any_upto(3);
    kani_cover!(form == 3 && shape == 2);
    kani_cover!(form == 0 && shape == 0);
    reset_log();
    let seen = |x: u32| log(x.wrapping_sub(salt).wrapping_mul(0x359c449b));
    let i = if n > 0 { any_upto(n - 1) } else { 0 };
    match shape {
        0 => { let m: GenericArray<u8, N> = map_via(a, form, |x| { seen(x); x as u8 }); log_is_identity(n); if n > 0 { assert!(m[i] == val(salt, i) as u8, "shrinking map: result at the wrong index"); } }
        1 => { let m: GenericArray<u64, N> = map_via(a, form, |x| { seen(x); (x as u64) << 3 }); log_is_identity(n); if n > 0 { assert!(m[i] == (val(salt, i) as u64) << 3, "widening map: result at the wrong index"); } }
        2 => { let m: GenericArray<[u32; 2], N> = map_via(a, form, |x| { seen(x); [x, !x] }); log_is_identity(n); if n > 0 { assert!(m[i][0] == val(salt, i) && m[i][1] == !val(salt, i), "growing map (same alignment): result at the wrong index"); } }
        _ => { let m: GenericArray<[u8; 3], N> = map_via(a, form, |x| { seen(x); [x as u8, 1, 2] }); log_is_identity(n); if n > 0 { assert!(m[i][0] == val(salt, i) as u8, "map into a smaller alignment: result at the wrong index"); } }
    }
}

pub fn generate_map_fold<T, N: ArrayLength, const R: usize>() {
    let n = N::USIZE;
    let salt = any_u32();
    // generate: arguments 0..N ascending, result i at index i
    let a: GenericArray<u32, N> = GenericArray::generate(|i| { log(i as u32); val(salt, i) });
    log_is_identity(n);
    if n > 0 { let i = any_upto(n - 1); assert!(a[i] == val(salt, i), "generate stored result i at another index"); }
    let form = any_upto(3);
    let which = any_upto(1);
    kani_cover!(form == 3 && which == 1);
    reset_log();
    let mut k = 0usize;
    if which == 0 {
        // map: f(a[i]) at index i, calls in ascending order
        let f = |x: u32| { log(x.wrapping_sub(salt).wrapping_mul(0x359c449b)); x ^ 0x5555 };   // inverse multiplier of 0x01000193 mod 2^32
        let m: GenericArray<u32, N> = match form {
            0 => a.map(f),
            1 => (&a).map(|x| f(*x)),
            2 => { let mut a = a; (&mut a).map(|x| f(*x)) }
            _ => { let b: Box<GenericArray<u32, N>> = Box::new(a); *b.map(f) }
        };
        log_is_identity(n);
        if n > 0 { let i = any_upto(n - 1); assert!(m[i] == val(salt, i) ^ 0x5555, "map result at the wrong index"); }
    } else {
        // fold: left fold, non-commutative
        let f = |acc: u32, x: u32| { log(x.wrapping_sub(salt).wrapping_mul(0x359c449b)); acc.wrapping_mul(31).wrapping_add(x) };
        let r = match form {
            0 => a.fold(7u32, f),
            1 => (&a).fold(7u32, |acc, x| f(acc, *x)),
            2 => { let mut a = a; (&mut a).fold(7u32, |acc, x| f(acc, *x)) }
            _ => { let b: Box<GenericArray<u32, N>> = Box::new(a); b.fold(7u32, f) }
        };
        log_is_identity(n);
        let mut m = 7u32;
        let mut j = 0;
        while j < n { m = m.wrapping_mul(31).wrapping_add(val(salt, j)); j += 1; }
        assert!(r == m, "fold is not the left fold");
    }
}

/// all nine stack receiver x argument forms of zip, plus Box x Box; plain (no-drop) elements
pub fn zip_forms<T, N: ArrayLength, const R: usize>() {
    let n = N::USIZE;
    let sa = any_u32();
    let sb = any_u32();
    let mut a: GenericArray<u32, N> = GenericArray::generate(|i| val(sa, i));
    let mut b: GenericArray<u32, N> = GenericArray::generate(|i| val(sb, i).rotate_left(7));
    let form = any_upto(9);
    kani_cover!(form == 9);
    kani_cover!(form == 4);
    let f = |x: u32, y: u32| {
        log(x.wrapping_sub(sa).wrapping_mul(0x359c449b));
        // the k-th call must receive b[k] together with a[k]
        let k = x.wrapping_sub(sa).wrapping_mul(0x359c449b) as usize;
        assert!(y == val(sb, k).rotate_left(7), "zip paired elements of different indices");
        x.wrapping_mul(3).wrapping_sub(y)
    };
    let z: GenericArray<u32, N> = match form {
        0 => a.zip(b, f),
        1 => a.zip(&b, |x, y| f(x, *y)),
        2 => a.zip(&mut b, |x, y| f(x, *y)),
        3 => (&a).zip(b, |x, y| f(*x, y)),
        4 => (&a).zip(&b, |x, y| f(*x, *y)),
        5 => (&a).zip(&mut b, |x, y| f(*x, *y)),
        6 => (&mut a).zip(b, |x, y| f(*x, y)),
        7 => (&mut a).zip(&b, |x, y| f(*x, *y)),
        8 => (&mut a).zip(&mut b, |x, y| f(*x, *y)),
        _ => { let ba = Box::new(a); let bb = Box::new(b); *ba.zip(bb, f) }
    };
    log_is_identity(n);
    if n > 0 {
        let i = any_upto(n - 1);
        assert!(z[i] == val(sa, i).wrapping_mul(3).wrapping_sub(val(sb, i).rotate_left(7)), "zip result at the wrong index");
    }
}

/// the drop-aware code paths: tracked elements, owned/borrowed mixes
pub fn zip_map_tracked<T, N: ArrayLength, const R: usize>() {
    let n = N::USIZE;
    let a = tr_array::<N>(0);
    let b = tr_array::<N>(CLONE_OFFSET);
    let form = any_upto(5);
    kani_cover!(form == 5);
    let r: GenericArray<u8, N> = match form {
        0 => a.zip(b, |x, y| { log(x.observe() as u32); assert!(y.observe() as usize == x.id as usize + CLONE_OFFSET); x.id }),
        1 => a.zip(&b, |x, y| { log(x.observe() as u32); assert!(y.observe() as usize == x.id as usize + CLONE_OFFSET); x.id }),
        2 => (&a).zip(b, |x, y| { log(x.observe() as u32); assert!(y.observe() as usize == x.id as usize + CLONE_OFFSET); x.id }),
        3 => a.map(|x| { log(x.observe() as u32); x.id }),
        4 => { let ids = GenericArray::<u8, N>::generate(|i| i as u8); ids.zip(b, |x, y| { log(x as u32); assert!(y.observe() as usize == x as usize + CLONE_OFFSET); x }) }
        _ => { let s = a.fold(0u8, |acc, x| { log(x.observe() as u32); acc }); GenericArray::generate(|i| i as u8) }
    };
    log_is_identity(n);
    if n > 0 { let i = any_upto(n - 1); assert!(r[i] as usize == i); }
}

// Clone / Default are the element-wise instances: recording element type
static mut NEXT: u32 = 0;
#[derive(Debug)]
pub struct Rec(pub u32);
impl Default for Rec {
    fn default() -> Rec {
        unsafe { NEXT += 1; Rec(NEXT - 1) }
    }
}
impl Clone for Rec {
    fn clone(&self) -> Rec {
        log(self.0);
        Rec(self.0 + 100)
    }
}
pub fn clone_default<T, N: ArrayLength, const R: usize>() {
    let n = N::USIZE;
    let boxed = any_bool();
    // default(): element i is the i-th default() call
    let a: GenericArray<Rec, N> = if boxed { *GenericArray::<Rec, N>::default_boxed() } else { Default::default() };
    assert!(unsafe { NEXT } as usize == n, "default() not called exactly N times");
    if n > 0 { let i = any_upto(n - 1); assert!(a[i].0 as usize == i, "default values not stored in call order"); }
    // clone(): element i cloned as the i-th call, stored at i
    let c = a.clone();
    log_is_identity(n);
    if n > 0 { let i = any_upto(n - 1); assert!(c[i].0 as usize == i + 100 && a[i].0 as usize == i); }
}

/// zero-sized elements: the generator's *calls* are the only observable effect, for the stack and the boxed form
static mut ZNEXT: u32 = 0;
#[derive(Debug, Clone, Copy, PartialEq)]
pub struct ZRec;
impl Default for ZRec {
    fn default() -> ZRec {
        unsafe { log(ZNEXT); ZNEXT += 1; }
        ZRec
    }
}
pub fn zero_sized_generators<T, N: ArrayLength, const R: usize>() {
    let n = N::USIZE;
    let form = any_upto(3);
    kani_cover!(form == 3);
    match form {
        0 => { let a: GenericArray<(), N> = GenericArray::generate(|i| log(i as u32)); assert!(a.len() == n); }
        1 => { let b: Box<GenericArray<(), N>> = Box::<GenericArray<(), N>>::generate(|i| log(i as u32)); assert!(b.len() == n); }
        2 => { let b: Box<GenericArray<ZRec, N>> = GenericArray::default_boxed(); assert!(b.len() == n); }
        _ => { let a: GenericArray<ZRec, N> = Default::default(); assert!(a.len() == n); }
    }
    log_is_identity(n);
}

/// zero-sized element types on either side of map / zip / fold / clone (owned, borrowed and boxed receivers): the *calls* are the only
/// observable effect, and a loop over a pointer range `start..end` never runs for them
#[derive(Debug, PartialEq)]
pub struct ZTok;
impl Clone for ZTok {
    fn clone(&self) -> ZTok {
        unsafe { log(ZNEXT); ZNEXT += 1; }
        ZTok
    }
}
pub fn zero_sized_ops<T, N: ArrayLength, const R: usize>() {
    let n = N::USIZE;
    let form = any_upto(10);
    kani_cover!(form == 10);
    kani_cover!(form == 3);
    let z: GenericArray<(), N> = GenericArray::generate(|_| ());
    let s: GenericArray<u32, N> = GenericArray::generate(|i| i as u32);
    reset_log();
    match form {
        0 => { let m: GenericArray<u32, N> = z.map(|_| { let k = logn() as u32; log(k); k }); if n > 0 { let i = any_upto(n - 1); assert!(m[i] as usize == i, "map result at the wrong index"); } }
        1 => { let m: GenericArray<(), N> = s.map(|x| log(x)); assert!(m.len() == n); }
        2 => { let m: GenericArray<(), N> = z.map(|_| { let k = logn() as u32; log(k) }); assert!(m.len() == n); }
        3 => { let r = z.fold(0u32, |acc, _| { log(acc); acc + 1 }); assert!(r as usize == n, "fold over zero-sized elements skipped calls"); }
        4 => { let m: GenericArray<(), N> = (&s).map(|x| log(*x)); assert!(m.len() == n); }
        5 => { let m: GenericArray<(), N> = s.zip(z, |x, _| log(x)); assert!(m.len() == n); }
        6 => { let m: GenericArray<u32, N> = z.zip(s, |_, y| { log(y); y }); if n > 0 { let i = any_upto(n - 1); assert!(m[i] as usize == i); } }
        7 => { let b = Box::new(z); let r = b.fold(0u32, |acc, _| { log(acc); acc + 1 }); assert!(r as usize == n); }
        8 => { let zt: GenericArray<ZTok, N> = GenericArray::generate(|_| ZTok); unsafe { ZNEXT = 0 }; let c = zt.clone(); assert!(c.len() == n); }
        9 => { let r = (&z).fold(0u32, |acc, _| { log(acc); acc + 1 }); assert!(r as usize == n); }
        _ => { let m: Box<GenericArray<(), N>> = Box::new(s).map(|x| log(x)); assert!(m.len() == n); }
    }
    log_is_identity(n);
}

/// large element types (136 bytes: above a cache line and above any "small array" threshold even for N = 1): block-size computations such
/// as `64 / size_of::<T>()` degenerate to 0 for them, and same-layout in-place fast paths become applicable
#[derive(Clone, Debug, PartialEq)]
pub struct Big {
    pub tag: u32,
    pub pad: [u64; 16],
}
impl Big {
    fn new(tag: u32) -> Big { Big { tag, pad: [tag as u64; 16] } }
    fn ok(&self, tag: u32) -> bool { self.tag == tag && self.pad[0] == tag as u64 && self.pad[15] == tag as u64 }
}
impl Default for Big {
    fn default() -> Big {
        unsafe { log(ZNEXT); ZNEXT += 1; Big::new(ZNEXT - 1) }
    }
}
pub fn large_elements<T, N: ArrayLength, const R: usize>() {
    let n = N::USIZE;
    let form = any_upto(8);
    kani_cover!(form == 8);
    kani_cover!(form == 0);
    let salt = any_u32() & 0xffff;
    let i = if n > 0 { any_upto(n - 1) } else { 0 };
    unsafe { ZNEXT = 0 };
    reset_log();
    match form {
        0 => { let a: GenericArray<Big, N> = GenericArray::generate(|k| { log(k as u32); Big::new(salt + k as u32) }); assert!(n == 0 || a[i].ok(salt + i as u32), "generate: result i is not at index i"); }
        1 => { let a: Box<GenericArray<Big, N>> = Box::<GenericArray<Big, N>>::generate(|k| { log(k as u32); Big::new(salt + k as u32) }); assert!(n == 0 || a[i].ok(salt + i as u32)); }
        2 => { let a: GenericArray<Big, N> = Default::default(); assert!(n == 0 || a[i].ok(i as u32), "Default: element i is not the i-th default"); }
        3 => { let a: Box<GenericArray<Big, N>> = GenericArray::default_boxed(); assert!(n == 0 || a[i].ok(i as u32)); }
        4 => {
            // same-layout map (Big -> Big)
            let a: GenericArray<Big, N> = GenericArray::generate(|k| Big::new(salt + k as u32));
            let m: GenericArray<Big, N> = a.map(|x| { log(x.tag - salt); Big::new(x.tag + 7) });
            assert!(n == 0 || m[i].ok(salt + i as u32 + 7), "map: f(a[i]) is not at index i");
        }
        5 => {
            let a: GenericArray<Big, N> = GenericArray::generate(|k| Big::new(salt + k as u32));
            let m: GenericArray<u32, N> = (&a).map(|x| { log(x.tag - salt); x.tag + 7 });
            assert!(n == 0 || m[i] == salt + i as u32 + 7);
        }
        6 => {
            let a: GenericArray<Big, N> = GenericArray::generate(|k| Big::new(salt + k as u32));
            let b: GenericArray<Big, N> = GenericArray::generate(|k| Big::new(3 * k as u32));
            let m: GenericArray<Big, N> = a.zip(b, |x, y| { log(x.tag - salt); Big::new(x.tag + y.tag) });
            assert!(n == 0 || m[i].ok(salt + 4 * i as u32), "zip: f(a[i], b[i]) is not at index i");
        }
        7 => {
            let a: GenericArray<Big, N> = GenericArray::generate(|k| Big::new(salt + k as u32));
            let r = a.fold(0u32, |acc, x| { log(x.tag - salt); assert!(acc == x.tag - salt, "fold is not the left fold"); acc + 1 });
            assert!(r as usize == n);
        }
        _ => {
            let a: GenericArray<Big, N> = GenericArray::generate(|k| { log(k as u32); Big::new(salt + k as u32) });
            let c = a.clone();
            assert!(n == 0 || (c[i].ok(salt + i as u32) && a[i].ok(salt + i as u32)), "clone differs from the original");
        }
    }
    log_is_identity(n);
}

macro_rules! c08_lattice {
    ($body:ident; $($name:ident: $N:ty, $u:literal;)*) => {
        pub mod $body {
            use super::super::$body;
            use crate::common::*;
            lattice! { $body; $($name: <(), $N, 0> unwind $u;)* }
        }
    };
}
pub mod q {
    c08_lattice! { generate_map_fold; n0: U0, 3; n1: U1, 4; n2: U2, 5; n3: U3, 6; n4: U4, 7; }
    c08_lattice! { zip_forms; n0: U0, 3; n1: U1, 4; n3: U3, 6; n4: U4, 7; }
    c08_lattice! { resizing_map; n0: U0, 3; n2: U2, 5; n3: U3, 6; }
    c08_lattice! { zip_map_tracked; n0: U0, 3; n2: U2, 5; n4: U4, 7; }
    c08_lattice! { clone_default; n0: U0, 3; n1: U1, 4; n4: U4, 7; }
    c08_lattice! { zero_sized_generators; n0: U0, 3; n1: U1, 4; n3: U3, 6; }
    c08_lattice! { zero_sized_ops; n0: U0, 3; n1: U1, 4; n3: U3, 6; }
    c08_lattice! { large_elements; n0: U0, 18; n1: U1, 18; n2: U2, 18; n3: U3, 18; }
}
pub mod t {
    c08_lattice! { generate_map_fold; n5: U5, 8; n6: U6, 9; n7: U7, 10; n8: U8, 11; }
    c08_lattice! { zip_forms; n2: U2, 5; n5: U5, 8; n8: U8, 11; }
    c08_lattice! { resizing_map; n1: U1, 4; n4: U4, 7; n8: U8, 11; }
    c08_lattice! { zip_map_tracked; n1: U1, 4; n3: U3, 6; n5: U5, 8; n8: U8, 11; }
    c08_lattice! { clone_default; n2: U2, 5; n3: U3, 6; n8: U8, 11; }
    c08_lattice! { zero_sized_generators; n2: U2, 5; n5: U5, 8; n8: U8, 11; }
    c08_lattice! { zero_sized_ops; n2: U2, 5; n5: U5, 8; n8: U8, 11; }
    c08_lattice! { large_elements; n4: U4, 18; n5: U5, 18; n8: U8, 18; }
}
