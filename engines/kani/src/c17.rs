//! C17 - serde: arrays serialise as fixed-size tuples of exactly N elements; deserialisation rejects any
//! other length and any element error, dropping what was read exactly once.
//! A *scripted* SeqAccess (symbolic element count, hints, error position) and a *recording* Serializer.
use crate::common::*;
use core::fmt;
use serde::de::{self, DeserializeSeed, Deserializer, SeqAccess, Visitor};
use serde::ser::{self, Serialize, SerializeTuple, Serializer};
use serde::Deserialize;

// ------------------------------------------------------------------ recording serializer
#[derive(Debug)]
pub struct SErr;
impl fmt::Display for SErr {
    fn fmt(&self, _f: &mut fmt::Formatter<'_>) -> fmt::Result { Ok(()) }
}
impl ser::Error for SErr {
    fn custom<T: fmt::Display>(_msg: T) -> Self { SErr }
}
#[cfg(not(kani))]
impl std::error::Error for SErr {}
pub struct Rec {
    pub kind: u8, // 0 nothing, 1 tuple, 2 seq, 3 something else
    pub announced: usize,
    pub elems: [u32; 40],
    pub n: usize,
    pub ended: bool,
}
macro_rules! refuse {
    ($($f:ident($($t:ty),*);)*) => { $( fn $f(self $(, _: $t)*) -> Result<(), SErr> { self.kind = 3; Err(SErr) } )* };
}
impl<'a> Serializer for &'a mut Rec {
    type Ok = ();
    type Error = SErr;
    type SerializeSeq = ser::Impossible<(), SErr>;
    type SerializeTuple = Self;
    type SerializeTupleStruct = ser::Impossible<(), SErr>;
    type SerializeTupleVariant = ser::Impossible<(), SErr>;
    type SerializeMap = ser::Impossible<(), SErr>;
    type SerializeStruct = ser::Impossible<(), SErr>;
    type SerializeStructVariant = ser::Impossible<(), SErr>;
    refuse! {
        serialize_bool(bool); serialize_i8(i8); serialize_i16(i16); serialize_i32(i32); serialize_i64(i64);
        serialize_u8(u8); serialize_u16(u16); serialize_u64(u64); serialize_f32(f32); serialize_f64(f64);
        serialize_char(char); serialize_str(&str); serialize_bytes(&[u8]); serialize_none(); serialize_unit();
        serialize_unit_struct(&'static str); serialize_unit_variant(&'static str, u32, &'static str);
    }
    fn serialize_u32(self, v: u32) -> Result<(), SErr> {
        assert!(self.n < 40);
        self.elems[self.n] = v;
        self.n += 1;
        Ok(())
    }
    fn serialize_some<T: ?Sized + Serialize>(self, _: &T) -> Result<(), SErr> { self.kind = 3; Err(SErr) }
    fn serialize_newtype_struct<T: ?Sized + Serialize>(self, _: &'static str, _: &T) -> Result<(), SErr> { self.kind = 3; Err(SErr) }
    fn serialize_newtype_variant<T: ?Sized + Serialize>(self, _: &'static str, _: u32, _: &'static str, _: &T) -> Result<(), SErr> { self.kind = 3; Err(SErr) }
    fn serialize_seq(self, _len: Option<usize>) -> Result<Self::SerializeSeq, SErr> { self.kind = 2; Err(SErr) }
    fn serialize_tuple(self, len: usize) -> Result<Self, SErr> {
        assert!(self.kind == 0);
        self.kind = 1;
        self.announced = len;
        Ok(self)
    }
    fn serialize_tuple_struct(self, _: &'static str, _: usize) -> Result<Self::SerializeTupleStruct, SErr> { self.kind = 3; Err(SErr) }
    fn serialize_tuple_variant(self, _: &'static str, _: u32, _: &'static str, _: usize) -> Result<Self::SerializeTupleVariant, SErr> { self.kind = 3; Err(SErr) }
    fn serialize_map(self, _: Option<usize>) -> Result<Self::SerializeMap, SErr> { self.kind = 3; Err(SErr) }
    fn serialize_struct(self, _: &'static str, _: usize) -> Result<Self::SerializeStruct, SErr> { self.kind = 3; Err(SErr) }
    fn serialize_struct_variant(self, _: &'static str, _: u32, _: &'static str, _: usize) -> Result<Self::SerializeStructVariant, SErr> { self.kind = 3; Err(SErr) }
    fn collect_str<T: ?Sized + fmt::Display>(self, _: &T) -> Result<(), SErr> { self.kind = 3; Err(SErr) }
}
impl<'a> SerializeTuple for &'a mut Rec {
    type Ok = ();
    type Error = SErr;
    fn serialize_element<T: ?Sized + Serialize>(&mut self, value: &T) -> Result<(), SErr> {
        assert!(!self.ended);
        value.serialize(&mut **self)
    }
    fn end(self) -> Result<(), SErr> {
        self.ended = true;
        Ok(())
    }
}

pub fn serializes<T, N: ArrayLength, const R: usize>() {
    let n = N::USIZE;
    let a: GenericArray<u32, N> = GenericArray::generate(|_| any_u32());
    let mut rec = Rec { kind: 0, announced: 0, elems: [0; 40], n: 0, ended: false };
    let r = a.serialize(&mut rec);
    assert!(r.is_ok());
    assert!(rec.kind == 1, "not serialised as a tuple (a sequence would carry a length prefix)");
    assert!(rec.announced == n, "tuple announced with a length other than N");
    assert!(rec.n == n && rec.ended, "not exactly N elements followed by end()");
    if n > 0 { let i = any_upto(n - 1); assert!(rec.elems[i] == a[i], "elements not serialised in index order"); }
    kani_cover!(true);
}

// ------------------------------------------------------------------ scripted deserializer
#[derive(Debug)]
pub struct DErr;
impl fmt::Display for DErr {
    fn fmt(&self, _f: &mut fmt::Formatter<'_>) -> fmt::Result { Ok(()) }
}
impl de::Error for DErr {
    /// the message is ignored: error *construction* is kept out of the solver's way
    fn custom<T: fmt::Display>(_msg: T) -> Self { DErr }
}
#[cfg(not(kani))]
impl std::error::Error for DErr {}

/// drop-tracked element read from the script
pub struct TrD(pub Tr);
impl<'de> Deserialize<'de> for TrD {
    fn deserialize<D: Deserializer<'de>>(d: D) -> Result<TrD, D::Error> {
        struct V;
        impl<'de> Visitor<'de> for V {
            type Value = TrD;
            fn expecting(&self, _f: &mut fmt::Formatter) -> fmt::Result { Ok(()) }
            fn visit_u8<E: de::Error>(self, v: u8) -> Result<TrD, E> { Ok(TrD(Tr::new(v as usize))) }
        }
        d.deserialize_u8(V)
    }
}
pub struct ElemDe(pub u8);
impl<'de> Deserializer<'de> for ElemDe {
    type Error = DErr;
    fn deserialize_any<V: Visitor<'de>>(self, _v: V) -> Result<V::Value, DErr> { Err(DErr) }
    fn deserialize_u8<V: Visitor<'de>>(self, v: V) -> Result<V::Value, DErr> { v.visit_u8(self.0) }
    serde::forward_to_deserialize_any! {
        bool i8 i16 i32 i64 i128 u16 u32 u64 u128 f32 f64 char str string bytes byte_buf option unit unit_struct
        newtype_struct seq tuple tuple_struct map struct enum identifier ignored_any
    }
}
pub struct Script {
    pub count: usize,         // elements the source holds
    pub err_at: usize,        // index whose element fails to parse (>= count: none)
    pub hint_up: Option<usize>,
    pub hint_later: Option<usize>,
    pub produced: usize,      // next_element calls that yielded an element
    pub hint_calls: usize,
    pub tuple_len: usize,
    pub after_none: bool,
}
pub struct ScriptDe<'a>(pub &'a mut Script);
impl<'de, 'a> Deserializer<'de> for ScriptDe<'a> {
    type Error = DErr;
    fn deserialize_any<V: Visitor<'de>>(self, _v: V) -> Result<V::Value, DErr> { Err(DErr) }
    fn deserialize_tuple<V: Visitor<'de>>(self, len: usize, v: V) -> Result<V::Value, DErr> {
        self.0.tuple_len = len;
        v.visit_seq(ScriptSeq(self.0))
    }
    serde::forward_to_deserialize_any! {
        bool i8 i16 i32 i64 i128 u8 u16 u32 u64 u128 f32 f64 char str string bytes byte_buf option unit unit_struct
        newtype_struct seq tuple_struct map struct enum identifier ignored_any
    }
}
pub struct ScriptSeq<'a>(pub &'a mut Script);
impl<'de, 'a> SeqAccess<'de> for ScriptSeq<'a> {
    type Error = DErr;
    fn next_element_seed<S: DeserializeSeed<'de>>(&mut self, seed: S) -> Result<Option<S::Value>, DErr> {
        let s = &mut *self.0;
        if s.produced >= s.count {
            s.after_none = true;
            return Ok(None);
        }
        if s.produced == s.err_at {
            return Err(DErr);
        }
        s.produced += 1;
        seed.deserialize(ElemDe((s.produced - 1) as u8)).map(Some)
    }
    fn size_hint(&self) -> Option<usize> {
        // first call: the up-front hint; later calls: the later hint
        if self.0.produced == 0 && self.0.hint_calls_is_zero() { self.0.hint_up } else { self.0.hint_later }
    }
}
impl Script {
    fn hint_calls_is_zero(&self) -> bool { !self.after_none && self.produced == 0 }
}

pub fn deserializes<T, N: ArrayLength, const R: usize>() {
    let n = N::USIZE;
    let count = any_upto(n + 2);
    let err_at = any_upto(n + 3);
    let hint_up = if any_bool() { Some(any_upto(n + 2)) } else { None };
    let hint_later = if any_bool() { Some(any_upto(2)) } else { None };
    // the property's own exclusion: a source reporting "nothing left" while it still holds elements
    assume(!(hint_later == Some(0) && count > n));
    // with N == 0 the surplus probe's size_hint call sees the same script state as the up-front one: same exclusion
    assume(!(n == 0 && hint_up == Some(0) && count > 0));
    let mut s = Script { count, err_at, hint_up, hint_later, produced: 0, hint_calls: 0, tuple_len: usize::MAX, after_none: false };
    kani_cover!(count == n && err_at > n && hint_up == Some(n), "exact hint, exact count");
    kani_cover!(count == n && err_at > n && hint_up.is_none(), "no hint, exact count");
    kani_cover!(count == n + 1 && hint_up.is_none() && err_at > n + 1, "surplus discovered while reading");
    kani_cover!(n == 0 || (count + 1 == n && hint_up.is_none()), "one element short");
    kani_cover!(n == 0 || (err_at + 1 == n && count == n), "last element fails to parse");
    kani_cover!(n == 0 || (hint_up == Some(n) && count != n && err_at > n + 1), "hint contradicted by what follows");
    let r: Result<GenericArray<TrD, N>, DErr> = GenericArray::deserialize(ScriptDe(&mut s));
    assert!(s.tuple_len == n, "deserialize_tuple not asked for N elements");
    let hint_ok = if n == 0 {
        // for N == 0 both size_hint calls see the same script state
        hint_up.map_or(true, |h| h == 0)
    } else {
        hint_up.map_or(true, |h| h == n)
    };
    let elem_err = err_at < count && err_at < n;
    let probe_err = n > 0 && count > n && err_at == n && hint_later != Some(0);
    match &r {
        Ok(a) => {
            assert!(hint_ok, "accepted although the up-front hint announced another length");
            assert!(count == n, "accepted input that does not offer exactly N elements");
            assert!(!elem_err, "accepted although an element failed to parse");
            if n > 0 { let i = any_upto(n - 1); assert!(a[i].0.observe() as usize == i, "elements out of order"); }
        }
        Err(_) => {
            if n > 0 {
                assert!(!(hint_ok && count == n && !elem_err), "rejected a well-formed input of exactly N elements");
            }
        }
    }
    assert!(s.produced <= n + 1, "read more than N + 1 elements");
    let produced = s.produced;
    let was_ok = r.is_ok();
    drop(r);
    // every element produced for a *real* slot was dropped exactly once (the surplus probe reads a Dummy, no Tr is built)
    let built = if produced > n { n } else { produced };
    if built > 0 { let k = any_upto(built - 1); assert!(drops(k) == 1, "element read from the input not dropped exactly once"); }
    if built < MAXID { assert!(drops(built) == 0); }
}

/// zero-sized drop-tracked elements: every element read is released exactly once on every outcome (a drop loop over a pointer range never
/// runs for them)
pub struct TrZD(pub TrZ);
impl<'de> Deserialize<'de> for TrZD {
    fn deserialize<D: Deserializer<'de>>(d: D) -> Result<TrZD, D::Error> {
        struct V;
        impl<'de> Visitor<'de> for V {
            type Value = TrZD;
            fn expecting(&self, _f: &mut fmt::Formatter) -> fmt::Result { Ok(()) }
            fn visit_u8<E: de::Error>(self, _v: u8) -> Result<TrZD, E> { Ok(TrZD(TrZ::new())) }
        }
        d.deserialize_u8(V)
    }
}
pub fn deserializes_zst<T, N: ArrayLength, const R: usize>() {
    let n = N::USIZE;
    let count = any_upto(n + 2);
    let err_at = any_upto(n + 3);
    let hint_up = if any_bool() { Some(any_upto(n + 2)) } else { None };
    let hint_later = if any_bool() { Some(any_upto(2)) } else { None };
    assume(!(hint_later == Some(0) && count > n));
    assume(!(n == 0 && hint_up == Some(0) && count > 0));
    let mut s = Script { count, err_at, hint_up, hint_later, produced: 0, hint_calls: 0, tuple_len: usize::MAX, after_none: false };
    kani_cover!(n == 0 || (err_at + 1 == n && count == n), "last element fails to parse");
    kani_cover!(count == n && err_at > n && hint_up.is_none(), "accepted");
    let r: Result<GenericArray<TrZD, N>, DErr> = GenericArray::deserialize(ScriptDe(&mut s));
    let built = if s.produced > n { n } else { s.produced };
    match &r {
        Ok(_) => { assert!(count == n); assert!(zlive() == n, "an accepted array does not hold N live elements"); }
        Err(_) => { assert!(zlive() == 0, "zero-sized elements read before the rejection were not dropped"); assert!(zdrops() == built, "zero-sized elements read before the rejection were not dropped exactly once"); }
    }
    drop(r);
    assert!(zlive() == 0 && zdrops() == built, "zero-sized elements not dropped exactly once");
}

/// the in-place entry point (`Deserialize::deserialize_in_place`, serde's default forwards to `deserialize`): same acceptance rule
pub fn deserializes_in_place<T, N: ArrayLength, const R: usize>() {
    let n = N::USIZE;
    let count = any_upto(n + 2);
    let err_at = any_upto(n + 3);
    let hint_up = if any_bool() { Some(any_upto(n + 2)) } else { None };
    let hint_later = if any_bool() { Some(any_upto(2)) } else { None };
    assume(!(hint_later == Some(0) && count > n));
    assume(!(n == 0 && hint_up == Some(0) && count > 0));
    let mut s = Script { count, err_at, hint_up, hint_later, produced: 0, hint_calls: 0, tuple_len: usize::MAX, after_none: false };
    kani_cover!(count == n && err_at > n && hint_up.is_none(), "no hint, exact count");
    kani_cover!(count == n + 1 && hint_up.is_none() && hint_later.is_none() && err_at > n + 1, "surplus without any hint");
    let mut place: GenericArray<u8, N> = GenericArray::generate(|_| 0xEE);
    let r: Result<(), DErr> = Deserialize::deserialize_in_place(ScriptDe(&mut s), &mut place);
    let hint_ok = if n == 0 { hint_up.map_or(true, |h| h == 0) } else { hint_up.map_or(true, |h| h == n) };
    let elem_err = err_at < count && err_at < n;
    match r {
        Ok(()) => {
            assert!(hint_ok, "in place: accepted although the up-front hint announced another length");
            assert!(count == n, "in place: accepted input that does not offer exactly N elements");
            assert!(!elem_err, "in place: accepted although an element failed to parse");
            if n > 0 { let i = any_upto(n - 1); assert!(place[i] as usize == i, "in place: elements out of order"); }
        }
        Err(_) => {
            if n > 0 { assert!(!(hint_ok && count == n && !elem_err), "in place: rejected a well-formed input of exactly N elements"); }
        }
    }
}

macro_rules! c17_lattice {
    ($body:ident; $($name:ident: $N:ty, $u:literal;)*) => {
        pub mod $body {
            use super::super::$body;
            use crate::common::*;
            lattice! { $body; $($name: <(), $N, 0> unwind $u;)* }
        }
    };
}
pub mod q {
    c17_lattice! { serializes; n0: U0, 4; n1: U1, 5; n3: U3, 7; }
    c17_lattice! { deserializes; n0: U0, 5; n1: U1, 6; n3: U3, 8; }
    c17_lattice! { deserializes_in_place; n0: U0, 5; n1: U1, 6; n3: U3, 8; }
    c17_lattice! { deserializes_zst; n0: U0, 5; n1: U1, 6; n3: U3, 8; }
}
// lengths beyond the sizes serde's own array (32) and tuple (16) impls stop at: a switch of encoding there is invisible below
pub mod ql {
    c17_lattice! { serializes; n17: U17, 21; n33: U33, 37; }
    c17_lattice! { deserializes; n17: U17, 22; n33: U33, 38; }
}
pub mod t {
    c17_lattice! { serializes; n2: U2, 6; n4: U4, 8; n8: U8, 12; }
    c17_lattice! { deserializes; n2: U2, 7; n4: U4, 9; n8: U8, 13; }
    c17_lattice! { deserializes_in_place; n2: U2, 7; n4: U4, 9; }
}
