//! Native confirmation of layout findings of engine L: size, alignment and element offsets of
//! GenericArray<T, N> against [T; N] for a few element layouts and lengths. Exit 1 + `REPRODUCED ...` on a mismatch.
use generic_array::typenum::*;
use generic_array::{ArrayLength, GenericArray};
use std::mem::{align_of, size_of};

#[derive(Default, Clone, Copy)]
#[repr(align(16))]
struct A16(u8);
#[derive(Default, Clone, Copy)]
#[repr(align(8))]
struct Z8;

fn check<T, N: ArrayLength>(tn: &str, bad: &mut Vec<String>) {
    let n = N::USIZE;
    if size_of::<GenericArray<T, N>>() != n * size_of::<T>() {
        bad.push(format!("size_of::<GenericArray<{tn}, U{n}>>() = {} but [T; N] has {}", size_of::<GenericArray<T, N>>(), n * size_of::<T>()));
    }
    if align_of::<GenericArray<T, N>>() != align_of::<T>() {
        bad.push(format!("align_of::<GenericArray<{tn}, U{n}>>() = {} but [T; N] has {}", align_of::<GenericArray<T, N>>(), align_of::<T>()));
    }
}
macro_rules! all_n { ($t:ty, $tn:expr, $bad:expr) => {
    check::<$t, U0>($tn, $bad); check::<$t, U1>($tn, $bad); check::<$t, U2>($tn, $bad); check::<$t, U3>($tn, $bad); check::<$t, U4>($tn, $bad);
    check::<$t, U5>($tn, $bad); check::<$t, U6>($tn, $bad); check::<$t, U7>($tn, $bad); check::<$t, U8>($tn, $bad); check::<$t, U9>($tn, $bad);
    check::<$t, U17>($tn, $bad); check::<$t, U64>($tn, $bad);
} }
fn main() {
    let mut bad = Vec::new();
    all_n!(u8, "u8", &mut bad);
    all_n!(u32, "u32", &mut bad);
    all_n!(u64, "u64", &mut bad);
    all_n!((u8, u16), "(u8,u16)", &mut bad);
    all_n!(A16, "A16", &mut bad);
    all_n!(Z8, "Z8", &mut bad);
    all_n!((), "()", &mut bad);
    // element positions: fill through the (possibly wrong) slice view of a native array transmuted bytewise
    let native: [u32; 7] = [10, 11, 12, 13, 14, 15, 16];
    if size_of::<GenericArray<u32, U7>>() == size_of::<[u32; 7]>() {
        let g: GenericArray<u32, U7> = unsafe { std::mem::transmute_copy(&native) };
        for i in 0..7 { if g[i] != native[i] { bad.push(format!("element {i} of GenericArray<u32, U7> is not at byte offset {}", i * 4)); break; } }
    }
    if bad.is_empty() { println!("NOT-REPRODUCED: every size, alignment and element position matches [T; N]"); }
    else { println!("REPRODUCED {}", bad[0]); std::process::exit(1); }
}
