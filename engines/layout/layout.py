#!/usr/bin/env python3-vt
"""Engine L: SMT encoding of the Rust Reference's repr(C) / repr(transparent) layout rules applied to the
storage-node definitions parsed from /repo's source; base case + inductive step over the even/odd recursion
with symbolic (size_of T, align_of T).   usage: layout.py <repo-root>  -> JSON on stdout"""
import json, re, sys, time
import z3

W = 64
bv = lambda v: z3.BitVecVal(v, W)


def strip_comments(s):
    s = re.sub(r'//[^\n]*', '', s)
    return re.sub(r'/\*.*?\*/', '', s, flags=re.S)


def parse_structs(src):
    """-> {name: {'attrs': [...], 'generics': str, 'fields': [(name, type)]}}"""
    out = {}
    for m in re.finditer(r'((?:#\[[^\]]*\]\s*)*)pub struct (\w+)\s*<([^{;]*?)>\s*\{(.*?)\n\}', src, re.S):
        attrs = re.findall(r'#\[([^\]]*)\]', m.group(1))
        body = re.sub(r'#\[[^\]]*\]', '', m.group(4))
        fields = []
        for f in re.split(r',\s*\n', body.strip()):
            f = f.strip().rstrip(',')
            if not f:
                continue
            fm = re.match(r'(?:pub(?:\([^)]*\))? )?(\w+)\s*:\s*(.+)$', f, re.S)
            if fm:
                fields.append((fm.group(1), re.sub(r'\s+', ' ', fm.group(2).strip())))
        out[m.group(2)] = {'attrs': attrs, 'generics': m.group(3), 'fields': fields}
    return out


def parse_array_types(src):
    """the three `type ArrayType<T> = ...;` bindings keyed by the impl's self type"""
    out = {}
    for m in re.finditer(r'unsafe impl(?:<[^>]*>)? ArrayLength for (\w+(?:<[^{]*?>)?)\s*\{(.*?)\n\}', src, re.S):
        t = re.search(r'type ArrayType<T> = ([^\n]+);', m.group(2))
        if t:
            out[re.sub(r'\s+', '', m.group(1))] = re.sub(r'\s+', ' ', t.group(1).strip())
    return out


PRIMS = {'u8': (1, 1), 'i8': (1, 1), 'bool': (1, 1), 'u16': (2, 2), 'i16': (2, 2), 'u32': (4, 4), 'i32': (4, 4), 'f32': (4, 4),
         'u64': (8, 8), 'i64': (8, 8), 'f64': (8, 8), 'usize': (8, 8), 'isize': (8, 8), 'u128': (16, 16), 'i128': (16, 16)}


class Unknown(Exception):
    pass


def field_layout(ty, s, a, c, child_param):
    """symbolic (size, align) of a field type inside a node: T -> (s,a); child -> (c,a) [inductive hypothesis]"""
    ty = ty.strip()
    if ty == 'T':
        return s, a, 'elem'
    if ty == child_param:
        return c, a, 'child'
    if re.fullmatch(r'(core::marker::)?PhantomData<.*>', ty):
        return bv(0), bv(1), 'zst'
    if ty == '()':
        return bv(0), bv(1), 'zst'
    m = re.fullmatch(r'\[(.+); 0\]', ty)
    if m:
        inner = m.group(1).strip()
        if inner == 'T':
            return bv(0), a, 'zst'
        if inner in PRIMS:
            return bv(0), bv(PRIMS[inner][1]), 'zst'
    if ty in PRIMS:
        return bv(PRIMS[ty][0]), bv(PRIMS[ty][1]), 'other'
    raise Unknown(ty)


def round_up(x, al):
    return (x + al - 1) & ~(al - 1)


def bvmax(x, y):
    return z3.If(z3.UGE(x, y), x, y)


def repr_c(fields):
    """Reference algorithm: offset_i = round_up(end_{i-1}, align_i); align = max; size = round_up(end, align)"""
    offs, end, al = [], bv(0), bv(1)
    for (sz, fa, _) in fields:
        o = round_up(end, fa)
        offs.append(o)
        end = o + sz
        al = bvmax(al, fa)
    return offs, round_up(end, al), al


class Run:
    def __init__(s):
        s.obl, s.nq, s.ts = [], 0, 0.0

    def prove(s, name, hyp, goal, explain):
        so = z3.Solver()
        so.set('timeout', 120000)
        so.add(*hyp)
        so.add(z3.Not(goal))
        t = time.time()
        r = so.check()
        s.ts += time.time() - t
        s.nq += 1
        rec = {'name': name, 'explain': explain, 'status': 'discharged' if r == z3.unsat else ('refuted' if r == z3.sat else 'unknown')}
        if r == z3.sat:
            m = so.model()
            rec['witness'] = {str(d): m[d].as_long() for d in m.decls()}
        s.obl.append(rec)
        return r == z3.unsat


def main(root):
    t0 = time.time()
    src = strip_comments(open(root + '/src/lib.rs').read())
    structs = parse_structs(src)
    atypes = parse_array_types(src)
    R = Run()
    res = {'obligations': R.obl, 'parsed': {}, 'inconclusive': []}
    s, a, c, e = z3.BitVec('size_of_T', W), z3.BitVec('align_of_T', W), z3.BitVec('size_of_child', W), z3.BitVec('align_exp', W)
    # element layouts: a = 2^e (e <= 29), s a multiple of a (includes s = 0: aligned ZSTs; a = 1: packed), child c a multiple of a
    hyp = [z3.ULE(e, 29), a == (bv(1) << e), z3.URem(s, a) == 0, z3.URem(c, a) == 0, z3.ULT(c, bv(2 ** 61)), z3.ULT(s, bv(2 ** 61))]
    need = ['GenericArrayImplEven', 'GenericArrayImplOdd', 'GenericArray']
    for n in need:
        if n not in structs:
            res['inconclusive'].append('struct %s not found in src/lib.rs' % n)
    for k in ('UTerm', 'UInt<N,B0>', 'UInt<N,B1>'):
        if k not in atypes:
            res['inconclusive'].append('ArrayType binding for %s not found' % k)
    if res['inconclusive']:
        return res
    res['parsed'] = {'structs': {n: structs[n] for n in need}, 'array_types': atypes}
    # ---- base case
    try:
        bs, ba, _ = field_layout(atypes['UTerm'], s, a, c, None)
        R.prove('base: ArrayType<T> for length 0 has size 0', hyp, bs == 0, 'UTerm::ArrayType<T> = %s' % atypes['UTerm'])
        R.prove('base: ArrayType<T> for length 0 has the alignment of T', hyp, ba == a, 'UTerm::ArrayType<T> = %s (alignment must be align_of::<T>() even for N = 0)' % atypes['UTerm'])
    except Unknown as u:
        res['inconclusive'].append('base case type not interpretable: %s' % u)
    # ---- the recursion wires even/odd nodes to the right structs with the child in the right parameter
    for key, sname, kind in (('UInt<N,B0>', 'GenericArrayImplEven', 'even'), ('UInt<N,B1>', 'GenericArrayImplOdd', 'odd')):
        m = re.fullmatch(r'(\w+)<T, N::ArrayType<T>>', atypes[key])
        ok = bool(m) and m.group(1) == sname
        R.obl.append({'name': '%s lengths use %s<T, N::ArrayType<T>>' % (kind, sname), 'explain': atypes[key], 'status': 'discharged' if ok else 'refuted',
                      **({} if ok else {'witness': {'binding': atypes[key]}})})
    # ---- inductive steps
    for sname, kind in (('GenericArrayImplEven', 'even'), ('GenericArrayImplOdd', 'odd')):
        st = structs[sname]
        gen = [g.strip() for g in st['generics'].split(',')]
        child_param = gen[1] if len(gen) > 1 else None
        try:
            fl = [field_layout(t, s, a, c, child_param) for (_, t) in st['fields']]
        except Unknown as u:
            res['inconclusive'].append('%s: field type not interpretable: %s' % (sname, u))
            continue
        is_c = any(re.fullmatch(r'repr\(\s*C\s*\)', x.strip()) for x in st['attrs'])
        kids = [i for i, f in enumerate(fl) if f[2] == 'child']
        elems = [i for i, f in enumerate(fl) if f[2] == 'elem']
        R.obl.append({'name': '%s node: exactly two children%s' % (kind, ' and one element' if kind == 'odd' else ' and no element'),
                      'explain': str(st['fields']), 'status': 'discharged' if len(kids) == 2 and len(elems) == (1 if kind == 'odd' else 0) else 'refuted',
                      **({} if len(kids) == 2 and len(elems) == (1 if kind == 'odd' else 0) else {'witness': {'fields': str(st['fields'])}})})
        if len(kids) != 2 or len(elems) != (1 if kind == 'odd' else 0):
            continue
        want_size = c + c + (s if kind == 'odd' else 0)
        if is_c:
            offs, size, al = repr_c(fl)
            h = list(hyp)
        else:
            # repr(Rust): any aligned, non-overlapping placement is permitted; size/alignment only bounded below
            offs = [z3.BitVec('%s_off%d' % (kind, i), W) for i in range(len(fl))]
            size, al = z3.BitVec(kind + '_size', W), z3.BitVec(kind + '_align', W)
            h = list(hyp) + [z3.ULT(size, bv(2 ** 62))]
            for i, (sz, fa, _) in enumerate(fl):
                h += [z3.URem(offs[i], fa) == 0, z3.ULE(offs[i] + sz, size), z3.ULT(offs[i], bv(2 ** 62)), z3.UGE(al, fa)]
                for j in range(i):
                    szj = fl[j][0]
                    h.append(z3.Or(z3.ULE(offs[i] + sz, offs[j]), z3.ULE(offs[j] + szj, offs[i]), sz == 0, szj == 0))
        tag = '' if is_c else ' [no #[repr(C)]: layout permitted by repr(Rust)]'
        R.prove('%s node: alignment equals align_of::<T>()%s' % (kind, tag), h, al == a, 'max over field alignments')
        R.prove('%s node: size equals 2 * child%s%s' % (kind, ' + size_of::<T>()' if kind == 'odd' else '', tag), h, size == want_size, 'no padding anywhere')
        R.prove('%s node: first child at offset 0%s' % (kind, tag), h, offs[kids[0]] == 0, 'elements 0..k of the node')
        R.prove('%s node: second child at offset child_size (adjacent)%s' % (kind, tag), h, offs[kids[1]] == c, 'elements k..2k of the node')
        if kind == 'odd':
            R.prove('odd node: the element sits at offset 2 * child_size (it is element 2k)%s' % tag, h, offs[elems[0]] == c + c, 'the last element of the node')
        R.prove('%s node: size is a multiple of the alignment (hypothesis re-established for the parent)%s' % (kind, tag), h, z3.URem(size, a) == 0, 'inductive invariant')
    # ---- wrapper
    w = structs['GenericArray']
    transparent = any(re.fullmatch(r'repr\(\s*transparent\s*\)', x.strip()) for x in w['attrs'])
    data_ok = len(w['fields']) == 1 and re.fullmatch(r'N::ArrayType<T>', w['fields'][0][1]) is not None
    R.obl.append({'name': 'GenericArray is #[repr(transparent)] over its single field N::ArrayType<T>', 'explain': 'attrs %s fields %s' % (w['attrs'], w['fields']),
                  'status': 'discharged' if transparent and data_ok else 'refuted', **({} if transparent and data_ok else {'witness': {'attrs': str(w['attrs']), 'fields': str(w['fields'])}})})
    res['queries'], res['solver_s'], res['wall_s'] = R.nq, round(R.ts, 3), round(time.time() - t0, 3)
    res['induction'] = ('size(N) = N * size_of::<T>() and "element i at offset i * size_of::<T>()" follow by induction on the binary digits of N: '
                        'size(0) = 0 (base); size(2k) = 2 size(k), size(2k+1) = 2 size(k) + s (steps); the first child holds elements 0..k at their offsets, '
                        'the second child the same shifted by size(k) = k*s, the odd element is element 2k at offset 2k*s. The solver discharges base and steps; the induction itself is this 3-line argument.')
    return res


if __name__ == '__main__':
    print(json.dumps(main(sys.argv[1])))
