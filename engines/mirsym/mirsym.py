#!/usr/bin/env python3-vt
"""mirsym - bounded symbolic execution of rustc's *generic* MIR of /repo with unwind edges, per-path
memory, type-directed drops and an element-ownership ledger; every obligation is an SMT query (z3).

MIR is generic: `N::USIZE`, `size_of::<T>()`, `needs_drop::<T>()` stay symbolic 64-bit values, and the
unwind edges / cleanup blocks / drop flags that only exist on panicking paths are explicit.

Abstract values
  z3 BitVec(64) / Bool    integers, booleans
  Arr(name, len)          an object of `len` elements (a GenericArray, a slice's backing store, a heap block)
  ArrRef(arr)             reference / pointer to the whole object
  Slice(arr, start, end)  `&[T]` / `*mut [T]` over elements [start, end) of arr (`stride` > 1: elements are chunks)
  ElemPtr(arr, idx)       pointer to element idx
  Elem(arr, idx)          an owned element value moved out of arr[idx] (or produced by caller code: virtual array)
  Ref(cell, path)         reference to interpreter memory (a local or a field of one)
  Enum(variant, fields), dict (aggregates), Opaque(tag), UNIT

Ownership ledger: per Arr one z3 term = state of the universally quantified witness element J.
"""
import itertools, os, re, sys, time
import z3

W = 64
# Numeric back-end. 'bv': 64-bit bit-vectors (machine semantics). 'int': mathematical integers constrained to [0, 2^64) with the
# wrap conditions made explicit (overflow flag <=> exact result >= 2^64) - used for the multiply/divide kernels, where bit-blasting
# a symbolic x symbolic product does not finish.
MODE = ['bv']
RANGE = []          # range facts for every integer symbol created in 'int' mode (added to the initial path condition)
TWO64 = 2 ** 64


def set_mode(m):
    MODE[0] = m


# solver cross-check (xcheck.py): the discharged (unsat) obligation queries of the running scenario, as SMT-LIB 2 text
XDUMP = []
XDUMP_ON = [bool(os.environ.get('MIRSYM_XCHECK'))]


def is_int():
    return MODE[0] == 'int'


def bv(v):
    return z3.IntVal(v) if is_int() else z3.BitVecVal(v, W)


def mkint(name):
    if is_int():
        x = z3.Int(name)
        RANGE.append(z3.And(x >= 0, x < TWO64))
        return x
    return z3.BitVec(name, W)


def ULE(a, b):
    return a <= b if z3.is_int(a) or z3.is_int(b) else z3.ULE(a, b)


def ULT(a, b):
    return a < b if z3.is_int(a) or z3.is_int(b) else z3.ULT(a, b)


def UGE(a, b):
    return a >= b if z3.is_int(a) or z3.is_int(b) else z3.UGE(a, b)


def UGT(a, b):
    return a > b if z3.is_int(a) or z3.is_int(b) else z3.UGT(a, b)


def ADDOK(a, b):
    return a + b < TWO64 if z3.is_int(a) or z3.is_int(b) else z3.BVAddNoOverflow(a, b, False)


def MULOK(a, b):
    return a * b < TWO64 if z3.is_int(a) or z3.is_int(b) else z3.BVMulNoOverflow(a, b, False)


def LSHR(a, b):
    if z3.is_int(a):
        if z3.is_int_value(b):
            return a / (2 ** b.as_long())
        raise NotImplementedError('shift by a symbolic amount in integer mode')
    return z3.LShR(a, b)


# =============================================================================================== parsing
class Fn:
    def __init__(s, name, params, ptypes, ltypes, blocks, cleanup, ret, ctfe):
        s.name, s.params, s.ptypes, s.ltypes, s.blocks, s.cleanup, s.ret, s.ctfe = name, params, ptypes, ltypes, blocks, cleanup, ret, ctfe


def split_top(s, sep=','):
    out, depth, cur = [], 0, ''
    for i, c in enumerate(s):
        if c in '([{':
            depth += 1
        elif c in ')]}':
            depth -= 1
        elif c == '<':
            depth += 1
        elif c == '>' and s[i - 1] not in '-=':
            depth -= 1
        if c == sep and depth == 0:
            out.append(cur.strip())
            cur = ''
        else:
            cur += c
    if cur.strip():
        out.append(cur.strip())
    return out


CONST_ITEMS = {}      # last path segment -> [('lit', text) | ('body', Fn)]: the crate's own constants (associated and free)


def parse_mir(text):
    """-> {name: [Fn runtime, Fn ctfe?]}"""
    CONST_ITEMS.clear()
    fns, lines, i = {}, text.split('\n'), 0
    ctfe_next = False
    while i < len(lines):
        if lines[i].startswith('// MIR FOR CTFE'):
            ctfe_next = True
            i += 1
            continue
        mk = re.match(r'^const ((?:.+?::)?[A-Za-z_]\w*): (.+?) = const (.+);$', lines[i])
        if mk and 'promoted[' not in mk.group(1):      # an associated / free constant with a literal value
            CONST_ITEMS.setdefault(mk.group(1).split('::')[-1], []).append(('lit', mk.group(3)))
            i += 1
            continue
        mk = re.match(r'^const ((?:.+?::)?[A-Za-z_]\w*): (.+?) = \{$', lines[i])
        m = re.match(r'^fn (.+?)\((.*)\) -> (.+) \{$', lines[i])
        if mk and 'promoted[' not in mk.group(1) and not m:
            m = _M('__const__::' + mk.group(1), '', mk.group(2))      # a constant with a body: a parameterless function evaluated where it is used
        if not m:
            i += 1
            continue
        name = m.group(1)
        plist = split_top(m.group(2))
        plist = [p for p in plist if p.strip()]
        params = [p.split(': ', 1)[0] for p in plist]
        ltypes = {p.split(': ', 1)[0]: p.split(': ', 1)[1] for p in plist}
        blocks, cleanup, cur = {}, set(), None
        i += 1
        while lines[i] != '}':
            ml = re.match(r'^\s+let (?:mut )?(_\d+): (.+);$', lines[i])
            if ml:
                ltypes[ml.group(1)] = ml.group(2)
            mb = re.match(r'^    (bb\d+)( \(cleanup\))?: \{$', lines[i])
            if mb:
                cur = mb.group(1)
                blocks[cur] = []
                if mb.group(2):
                    cleanup.add(cur)
            elif cur and lines[i] == '    }':
                cur = None
            elif cur:
                blocks[cur].append(lines[i].strip())
            i += 1
        if name.startswith('__const__::'):
            CONST_ITEMS.setdefault(name.split('::')[-1], []).append(('body', Fn(name, params, [], ltypes, blocks, cleanup, m.group(3), True)))
            ctfe_next = False
            i += 1
            continue
        fns.setdefault(name, []).append(Fn(name, params, [ltypes[p] for p in params], ltypes, blocks, cleanup, m.group(3), ctfe_next))
        ctfe_next = False
        i += 1
    return fns


class _M:
    def __init__(s, *g):
        s.g = g

    def group(s, i):
        return s.g[i - 1]


def split_cast(t):
    """`OPERAND as TYPE (Kind)` split at the FIRST top-level ` as ` (the type may itself contain `<X as Trait>`)"""
    mk = re.search(r' \((\w+(?:\([\w, ]*\))?)\)$', t)
    if not mk or not re.match(r'(copy|move|const) ', t):
        return None
    body, depth = t[:mk.start()], 0
    for i, ch in enumerate(body):
        if ch in '([{<' and not (ch == '<' and body[i - 1:i] == '-'):
            depth += 1
        elif ch in ')]}' or (ch == '>' and body[i - 1:i] not in ('-', '=')):
            depth -= 1
        elif depth == 0 and body.startswith(' as ', i):
            return _M(body[:i], body[i + 4:], mk.group(1))
    return None


def norm(t):
    """strip module paths in front of type names: core::mem::MaybeUninit -> MaybeUninit, iter::GenericArrayIter -> GenericArrayIter"""
    return re.sub(r'(?<![\w:])(?:[a-z_][a-z0-9_]*::)+(?=[A-Z])', '', t)


# =============================================================================================== values
class Arr:
    def __init__(s, name, length, kind='array'):
        s.name, s.len, s.kind = name, length, kind

    def __repr__(s):
        return 'Arr(%s)' % s.name


class _Ptr:
    """pointer-like values carry a write permission ("provenance"): 'mut' (derived from an owner or a `&mut` borrow only), 'shared' (some step
    of the derivation was a shared `&` borrow: writing through it, or turning it into `&mut`, is undefined behaviour), None (not tracked)"""
    prov = None


def with_prov(v, prov):
    if isinstance(v, _Ptr) and prov is not None and v.prov != prov:
        import copy
        v = copy.copy(v)
        v.prov = prov
    return v


class ArrRef(_Ptr):
    def __init__(s, arr):
        s.arr = arr


class Slice(_Ptr):
    def __init__(s, arr, start, end, stride=None):
        s.arr, s.start, s.end, s.stride = arr, start, end, stride


def valid_in(ex, st, f):
    so = ex._solver()
    so.add(*st.pc)
    so.add(z3.Not(f))
    ex.nq += 1
    return so.check() == z3.unsat


def free_vars(e, _cache={}):
    """names of the uninterpreted constants of a z3 term"""
    if not z3.is_expr(e):
        return set()
    k = e.get_id()
    if k in _cache:
        return _cache[k]
    out, todo, seen = set(), [e], set()
    while todo:
        x = todo.pop()
        i = x.get_id()
        if i in seen:
            continue
        seen.add(i)
        if z3.is_const(x) and x.decl().kind() == z3.Z3_OP_UNINTERPRETED:
            out.add(str(x))
        else:
            todo.extend(x.children())
    _cache[k] = out
    return out


class ElemPtr(_Ptr):
    def __init__(s, arr, idx, cast=None):
        s.arr, s.idx, s.cast = arr, idx, cast


class Elem:
    def __init__(s, arr, idx):
        s.arr, s.idx = arr, idx


class Ref(_Ptr):
    def __init__(s, cell, path):
        s.cell, s.path = cell, path


class Enum:
    def __init__(s, variant, fields):
        s.variant, s.fields = variant, fields


class Block:
    def __init__(s, name, arr):
        s.name, s.arr = name, arr


class BlockPtr:
    def __init__(s, block):
        s.block = block


class NullPtr:
    pass


class BoxVal:
    def __init__(s, ptr, init=True):
        s.ptr, s.init = ptr, init


class Opaque:
    def __init__(s, tag):
        s.tag = tag

    def __repr__(s):
        return 'Opaque(%s)' % s.tag


UNIT = ('unit',)
DISCR = {'None': 0, 'Some': 1, 'Ok': 0, 'Err': 1, 'Continue': 0, 'Break': 1}


def deep(v):
    if isinstance(v, dict):
        return {k: deep(x) for k, x in v.items()}
    if isinstance(v, Enum):
        return Enum(v.variant, deep(v.fields))
    return v


def by_value_array(ty):
    """does a value of this MIR type contain a whole GenericArray by value (i.e. not behind Box / & / raw pointer / Vec / PhantomData)?"""
    t, out, i = ty, '', 0
    while i < len(t):
        m = re.match(r"(?:Box|Vec|PhantomData|NonNull|alloc::boxed::Box|std::boxed::Box)<", t[i:])
        if m:      # skip the balanced <...>
            d, j = 0, i + m.end() - 1
            while j < len(t):
                d += (t[j] == '<') - (t[j] == '>' and t[j - 1] != '-')
                j += 1
                if d == 0:
                    break
            i = j
            continue
        m = re.match(r"(?:&(?:'\w+ )?(?:mut )?|\*const |\*mut )", t[i:])
        if m:      # the pointee of a reference / raw pointer: skip one type (up to the next top-level `,` / `>` / `)`)
            d, j = 0, i + m.end()
            while j < len(t):
                if t[j] in '<([':
                    d += 1
                elif t[j] in '>)]' and t[j - 1] != '-':
                    if d == 0:
                        break
                    d -= 1
                elif t[j] == ',' and d == 0:
                    break
                j += 1
            i = j
            continue
        out += t[i]
        i += 1
    return re.search(r'\bGenericArray<', out) is not None


class Inconclusive(Exception):
    pass


UNINIT, LIVE, HELD, EXTERN, DROPPED, STORED = (z3.BitVecVal(i, 3) for i in range(6))
SNAME = ['UNINIT', 'LIVE', 'HELD', 'EXTERN', 'DROPPED', 'STORED']


class State:
    _ids = itertools.count()

    def __init__(s):
        s.pc, s.status, s.events, s.heap, s.calls, s.blocks, s.visits = [], {}, [], {}, 0, {}, {}
        s.notes = {}
        s.vid = None      # number of values produced by caller code so far (z3 term; ledger index into the virtual array V)

    def clone(s):
        t = State()
        t.pc, t.status, t.events, t.calls = list(s.pc), dict(s.status), list(s.events), s.calls
        t.blocks = dict(s.blocks)
        t.visits = dict(s.visits)
        t.notes = dict(s.notes)
        t.vid = s.vid
        t.heap = {k: deep(v) for k, v in s.heap.items()}
        return t

    def new_cell(s, v=None):
        c = next(State._ids)
        s.heap[c] = v
        return c

    def get(s, cell, path):
        v = s.heap[cell]
        for f in path:
            if isinstance(v, BoxVal):      # Box internals (Unique / NonNull fields): still the same pointer
                continue
            if isinstance(v, dict) and '__union__' in v:
                v = v['__union__']
                continue
            v = v.fields[f] if isinstance(v, Enum) else v[f]
        return v

    def set(s, cell, path, val):
        if not path:
            s.heap[cell] = val
            return
        v = s.heap[cell]
        if v is None:
            v = s.heap[cell] = {}
        for f in path[:-1]:
            nxt = v.fields.get(f) if isinstance(v, Enum) else v.get(f)
            if nxt is None:
                nxt = {}
                if isinstance(v, Enum):
                    v.fields[f] = nxt
                else:
                    v[f] = nxt
            v = nxt
        if isinstance(v, Enum):
            v.fields[path[-1]] = val
        else:
            v[path[-1]] = val


# =============================================================================================== executor
class Exec:
    def __init__(s, fns, srcroot, J, N, nmax=3, ctfe=False, loop_cap=None):
        s.fns, s.srcroot, s.J, s.N = fns, srcroot, J, N
        s.nmax = nmax
        s.loop_cap = loop_cap if loop_cap is not None else nmax + 2
        s.ctfe = ctfe
        s.nq, s.tsolve = 0, 0.0
        s.summaries_used = set()
        s.fns_run = set()
        s.found = {}             # (kind, where) -> (model, trace)
        s.discharged = []        # [(kind, where)] obligations proved
        s.index, s.closures, s.defaults = {}, {}, {}
        s.V = None               # virtual array of values produced by caller code
        s.S = mkint('size_of_T')
        s.SZ = mkint('size_of_array')
        s.needs_drop = {}        # type param -> Bool
        s.self_binding = None    # for trait default bodies: what `Self` is ('GenericArray' / '&GenericArray' ...)
        s.unwind_edges = 0
        s.heap_only = bool(os.environ.get('MIRSYM_HEAP_ONLY'))      # C15: the operation under analysis is a *boxed* constructor - no frame on its path may hold a whole array by value
        s._frames_checked = set()
        s.consts = {}
        s.mir_text = None
        s.order = bool(os.environ.get('MIRSYM_ORDER'))      # C08: caller code is applied once per index, in index order
        s.inductive = {'': False, '1': True, 'strict': 'strict'}.get(os.environ.get('MIRSYM_INDUCTIVE', ''), False)   # False | True (fall back to unrolling) | 'strict'
        s.inductive_used = s.inductive_failed = 0
        s.solver_timeout_ms = int(os.environ.get('MIRSYM_SOLVER_TIMEOUT_MS', '60000'))
        s._src = {}
        for name, lst in fns.items():
            k = s.impl_key(name)
            if k:
                s.index.setdefault(k, lst)
            md = re.match(r'^(?:\w+::)*(\w+)::(\w+)$', name)
            if md and md.group(1)[0].isupper() and '<impl' not in name:
                s.defaults[(md.group(1), md.group(2))] = lst
            f0 = lst[0]
            mc = re.match(r'(?:&(?:mut )?)?(\{closure@[^}]+\})', f0.ptypes[0]) if f0.ptypes else None
            if mc and '{closure#' in name:
                s.closures[mc.group(1)] = f0
        for name, lst in fns.items():
            if '<impl' not in name and '::' not in name:
                s.index[(None, None, name)] = lst

    # ---------------------------------------------------------------- callee resolution
    def src_line(s, path, line):
        if path not in s._src:
            s._src[path] = open(os.path.join(s.srcroot, path)).read().split('\n')
        return s._src[path][line - 1].strip()

    def impl_key(s, name):
        m = re.search(r'<impl at (src/[\w/]+\.rs):(\d+):\d+: \d+:\d+>::(\w+)$', name)
        if not m:
            return None
        t = s.src_line(m.group(1), int(m.group(2)))
        t = re.sub(r'^unsafe ', '', t)
        if not t.startswith('impl'):
            return None
        t = t[4:]
        if t.startswith('<'):
            d = 0
            for i, c in enumerate(t):
                d += (c == '<') - (c == '>' and t[i - 1] != '-')
                if d == 0:
                    t = t[i + 1:]
                    break
        mm = re.match(r"(?:([\w:]+)(?:<.*>)? for )?(&?)\s*(?:'\w+ )?(mut )?(\w+)", t.strip())
        if not mm:
            return None
        trait = mm.group(1).split('::')[-1] if mm.group(1) else None
        head = mm.group(4)
        if mm.group(2):
            head = ('&mut ' if mm.group(3) else '&') + head
        return (trait, head, m.group(3))

    def pick(s, lst):
        if lst is None:
            return None
        if s.ctfe and len(lst) > 1:
            return lst[1]
        return lst[0]

    def find_fn(s, c):
        c = norm(c)
        c = re.sub(r"for<'a> fn\(&'a T\) -> T \{<T as Clone>::clone\}", 'CloneFn', c)
        mc = re.match(r'^<(.*) as Iterator>::collect::<(.*)>$', c)
        if mc:      # core: `fn collect<B: FromIterator<Item>>(self) -> B { FromIterator::from_iter(self) }`
            c = '<%s as FromIterator<_>>::from_iter' % mc.group(2)
        c = re.sub(r'::<[^<>]*(<[^<>]*(<[^<>]*(<[^<>]*>[^<>]*)*>[^<>]*)*>[^<>]*)*>$', '', c)  # trailing method generics
        m = re.match(r'^<<<Lhs as MappedGenericSequence<.*>>::Mapped as GenericSequence<.*>>::Sequence as FromIterator<.*>>::from_iter', c)
        if m:      # Lhs: a GenericSequence of the same length whose owned form is a GenericArray (scenario: a reference to a GenericArray)
            return s.pick(s.index.get(('FromIterator', 'GenericArray', 'from_iter')))
        m = re.match(r'^<<<Self as MappedGenericSequence<.*>>::Mapped as GenericSequence<.*>>::Sequence as FromIterator<.*>>::from_iter', c)
        if m and s.self_binding:
            return s.pick(s.index.get(('FromIterator', s.self_binding.replace('&mut ', '').replace('&', ''), 'from_iter')))
        m = re.match(r'^<<<(\w+)<.* as MappedGenericSequence<.*>>::Mapped as GenericSequence<.*>>::Sequence as FromIterator<.*>>::from_iter', c)
        if m:
            return s.pick(s.index.get(('FromIterator', m.group(1), 'from_iter')))
        m = re.match(r'^<<(?:&(?:mut )?)?(\w+)<.* as GenericSequence<.*>>::Sequence as FromIterator<.*>>::from_iter', c)
        if m:
            return s.pick(s.index.get(('FromIterator', m.group(1), 'from_iter')))
        m = re.match(r'^<(&mut |&)?(\w+)<.*> as (\w+)(?:<.*>)?>::(\w+)$', c)
        if m:
            pre, head, trait, meth = m.group(1) or '', m.group(2), m.group(3), m.group(4)
            if (trait, pre + head, meth) in s.index:
                return s.pick(s.index[(trait, pre + head, meth)])
            if pre == '&mut ' and trait in ('Iterator', 'DoubleEndedIterator', 'ExactSizeIterator') and (trait, head, meth) in s.index:
                # core's forwarding impls `impl<I: Iterator> Iterator for &mut I`: handled by the caller (argument dereferenced)
                return ('deref', s.pick(s.index[(trait, head, meth)]))
            if not pre and (trait, head, meth) in s.index:
                return s.pick(s.index[(trait, head, meth)])
            if (trait, meth) in s.defaults and head in ('GenericArray', 'Box'):
                return ('default', s.pick(s.defaults[(trait, meth)]), pre + head)
        m = re.match(r'^<Self as (\w+)(?:<.*>)?>::(\w+)$', c)
        if m and s.self_binding:
            key = (m.group(1), s.self_binding, m.group(2))
            if key in s.index:
                return s.pick(s.index[key])
            if (m.group(1), m.group(2)) in s.defaults:
                return s.pick(s.defaults[(m.group(1), m.group(2))])
        m = re.match(r'^(\w+)::<.*>::(\w+)$', c)
        if m and (None, m.group(1), m.group(2)) in s.index:
            return s.pick(s.index[(None, m.group(1), m.group(2))])
        m = re.match(r'^(?:\w+::)*<impl (\w+)<.*>>::(\w+)$', c)      # inherent method named through its module: impl_alloc::<impl GenericArray<T, N>>::f
        if m and (None, m.group(1), m.group(2)) in s.index:
            return s.pick(s.index[(None, m.group(1), m.group(2))])
        m = re.match(r'^(?:crate::)?(\w+)$', c)
        if m and (None, None, m.group(1)) in s.index:
            return s.pick(s.index[(None, None, m.group(1))])
        return None

    # ---------------------------------------------------------------- solver
    def _solver(s):
        so = z3.Solver()
        so.set('timeout', s.solver_timeout_ms)
        return so

    def feasible(s, st, extra):
        if z3.is_true(extra):
            return True
        if z3.is_false(extra):
            return False
        so = s._solver()
        so.add(*st.pc)
        so.add(extra)
        t = time.time()
        r = so.check()
        s.tsolve += time.time() - t
        s.nq += 1
        if r == z3.unknown:
            raise Inconclusive('solver returned unknown on a path-feasibility query')
        return r == z3.sat

    def require(s, st, cond, kind, where):
        """Obligation: pc => cond. A failure is recorded (with model and trace) and the path continues with cond assumed."""
        if isinstance(cond, bool):
            cond = z3.BoolVal(cond)
        so = s._solver()
        so.add(*st.pc)
        so.add(z3.Not(cond))
        t = time.time()
        r = so.check()
        s.tsolve += time.time() - t
        s.nq += 1
        key = (kind, where)
        if r == z3.sat:
            if key not in s.found:
                s.found[key] = (so.model(), ' ; '.join(st.events), list(st.pc))
        elif r != z3.unsat:
            raise Inconclusive('solver returned unknown for obligation "%s" at %s' % (kind, where))
        else:
            s.discharged.append(key)
            if XDUMP_ON[0] and len(XDUMP) < 4000:
                XDUMP.append(so.to_smt2())
        st.pc.append(cond)

    # ---------------------------------------------------------------- ledger events
    def stat(s, st, arr):
        return st.status.setdefault(arr, UNINIT)

    def in_freed_block(s, st, arr):
        for blk, stt in st.blocks.items():
            if getattr(blk, 'arr', None) is arr and stt == 'freed':
                return blk
        return None

    def ev_drop_range(s, st, arr, a, b, where, what='drop'):
        J = s.J
        if s.in_freed_block(st, arr) is not None:
            s.require(st, z3.Or(UGE(a, b), s.S == bv(0)), 'elements dropped in a heap block that was already freed (use after free)', where)
        s.require(st, z3.And(ULE(a, b), ULE(b, arr.len)), 'range outside the array (get_unchecked precondition)', where)
        inr = z3.And(ULE(a, J), ULT(J, b), ULT(J, arr.len))
        s.require(st, z3.Implies(inr, s.stat(st, arr) == LIVE),
                  'element dropped while not live (double drop / drop of uninitialised or moved-out slot)', where)
        st.status[arr] = z3.If(inr, DROPPED, st.status[arr])
        st.events.append('%s %s[%s..%s)' % (what, arr.name, z3.simplify(a), z3.simplify(b)))

    def drop_slice(s, st, sl, where):
        """drop_in_place of a slice of elements: the ledger event plus the unwind edge of a panicking element destructor"""
        if isinstance(sl, ArrRef):
            sl = Slice(sl.arr, bv(0), sl.arr.len)
        s.ev_drop_range(st, sl.arr, sl.start, sl.end, where)
        outs = [(st, 'ret', UNIT)]
        s2 = st.clone()
        ne = ULT(sl.start, sl.end)
        nd = s.needs_drop.get('T')
        cond = ne if nd is None else z3.And(ne, nd)
        if s.feasible(s2, cond):
            s2.pc.append(cond)
            s2.events.append('  ^an element destructor panicked (slice drop glue still drops the rest of the range)')
            s.unwind_edges += 1
            outs.append((s2, 'unwind', None))
        return outs

    def ev_move_out(s, st, arr, i, where):
        if s.in_freed_block(st, arr) is not None:
            s.require(st, s.S == bv(0), 'element read from a heap block that was already freed (use after free)', where)
        s.require(st, ULT(i, arr.len), 'element read out of bounds', where)
        s.require(st, z3.Implies(i == s.J, s.stat(st, arr) == LIVE), 'element read after it was moved out or dropped', where)
        st.status[arr] = z3.If(i == s.J, HELD, st.status[arr])
        st.events.append('read %s[%s]' % (arr.name, z3.simplify(i)))

    def ev_write(s, st, arr, i, val, where):
        if s.in_freed_block(st, arr) is not None:
            s.require(st, s.S == bv(0), 'element written into a heap block that was already freed (use after free)', where)
        s.require(st, ULT(i, arr.len), 'element written out of bounds', where)
        s.require(st, z3.Implies(i == s.J, s.stat(st, arr) != LIVE), 'live element overwritten without drop', where)
        st.status[arr] = z3.If(i == s.J, LIVE, st.status[arr])
        st.events.append('write %s[%s]' % (arr.name, z3.simplify(i)))
        if isinstance(val, Elem):
            if s.order and val.arr is s.V and arr.name.startswith(('Out', 'Heap')):
                s.require(st, val.idx == i + 1, 'slot i does not receive the result of call #i (order / once-per-index)', where)
            s.require(st, z3.Implies(val.idx == s.J, s.stat(st, val.arr) == HELD), 'stored a value that is not owned', where)
            st.status[val.arr] = z3.If(val.idx == s.J, STORED, st.status[val.arr])

    def ev_drop_elem(s, st, e, where):
        s.require(st, z3.Implies(e.idx == s.J, s.stat(st, e.arr) == HELD), 'value dropped that is not owned (double drop)', where)
        st.status[e.arr] = z3.If(e.idx == s.J, DROPPED, st.status[e.arr])
        st.events.append('drop value %s[%s]' % (e.arr.name, z3.simplify(e.idx)))

    def ev_extern(s, st, v):
        if isinstance(v, dict):
            for x in v.values():
                s.ev_extern(st, x)
        elif isinstance(v, Enum):
            s.ev_extern(st, v.fields)
        elif isinstance(v, Elem):
            st.status[v.arr] = z3.If(v.idx == s.J, EXTERN, s.stat(st, v.arr))

    def fresh_value(s, st, label):
        """caller-supplied code returned a fresh owned value: element #calls of the virtual array"""
        st.calls += 1
        k = st.calls
        vid = s.next_vid(st)
        st.status[s.V] = z3.If(s.J == vid, HELD, s.stat(st, s.V))
        return k, Elem(s.V, vid)

    def next_vid(s, st):
        st.vid = (bv(0) if st.vid is None else st.vid) + 1
        return st.vid

    # ---------------------------------------------------------------- places
    def parse_place(s, t):
        t = t.strip()
        if re.fullmatch(r'_\d+', t):
            return ('local', t)
        if t.startswith('(*') and t.endswith(')') and s._balanced(t[2:-1]):
            return ('deref', s.parse_place(t[2:-1]))
        if t.startswith('(') and t.endswith(')'):
            inner, depth = t[1:-1], 0
            for k in range(len(inner) - 1, -1, -1):
                c = inner[k]
                if c in ')]}':
                    depth += 1
                elif c in '([{':
                    depth -= 1
                elif c == '>' and inner[k - 1] not in '-=':
                    depth += 1
                elif c == '<':
                    depth -= 1
                elif c == '.' and depth == 0 and re.match(r'\.\d+: ', inner[k:]):
                    return ('field', s.parse_place(inner[:k]), int(re.match(r'\.(\d+): ', inner[k:]).group(1)))
            m = re.fullmatch(r'(.+) as (\w+)', inner)
            if m:
                return ('downcast', s.parse_place(m.group(1)), m.group(2))
        m = re.fullmatch(r'(.+)\[(_\d+)\]', t)
        if m:
            return ('index', s.parse_place(m.group(1)), m.group(2))
        m = re.fullmatch(r'(.+)\[(-?)(\d+) of (\d+)\]', t)      # slice pattern element: constant index from the start / from the end
        if m:
            return ('cindex', s.parse_place(m.group(1)), int(m.group(3)), m.group(2) == '-')
        raise NotImplementedError('place ' + t)

    @staticmethod
    def _balanced(t):
        d = 0
        for c in t:
            if c == '(':
                d += 1
            elif c == ')':
                d -= 1
                if d < 0:
                    return False
        return d == 0

    def resolve(s, st, fr, pl):
        k = pl[0]
        if k == 'local':
            if pl[1] not in fr:
                fr[pl[1]] = st.new_cell()
            return (fr[pl[1]], ())
        if k == 'deref':
            v = s.load(st, fr, pl[1])
            if isinstance(v, NullPtr):
                s.require(st, z3.BoolVal(False), 'null block dereferenced (allocation failure not handled)', 'deref')
                return ('val', ArrRef(Arr('null', s.N)))
            if isinstance(v, BlockPtr):
                return ('val', ArrRef(v.block.arr))
            if isinstance(v, BoxVal):
                p = v.ptr
                if isinstance(p, Slice):      # Box<[T]>
                    return ('val', p)
                return ('val', ArrRef(p.block.arr if isinstance(p, BlockPtr) else p))
            if isinstance(v, Ref):
                return (v.cell, v.path)
            return ('val', v)
        if k == 'field':
            cell, path = s.resolve(st, fr, pl[1])
            if cell == 'val':
                raise NotImplementedError('field of abstract pointee')
            return (cell, path + (pl[2],))
        if k == 'downcast':
            return s.resolve(st, fr, pl[1])
        if k == 'cindex':
            cell, path = s.resolve(st, fr, pl[1])
            base = path if cell == 'val' else st.get(cell, path)
            if isinstance(base, ArrRef):
                base = with_prov(Slice(base.arr, bv(0), base.arr.len), base.prov)
            if not isinstance(base, Slice):
                raise NotImplementedError('constant index projection on ' + type(base).__name__)
            step = base.stride if base.stride is not None else bv(1)
            off = bv(pl[2]) * step
            pos = (base.end - off) if pl[3] else (base.start + off)
            s.require(st, ULT(off, (base.end - base.start) + (step if pl[3] else bv(0))) if not pl[3] else ULE(off, base.end - base.start), 'slice pattern index out of bounds', 'index')
            cast = ('*const GenericArray<T, N>' if base.stride is not None else None)
            return ('val', with_prov(ElemPtr(base.arr, pos, cast=cast), base.prov))
        if k == 'index':      # slice[i] (the bounds check is a separate `assert` terminator in the MIR)
            cell, path = s.resolve(st, fr, pl[1])
            base = path if cell == 'val' else st.get(cell, path)
            if isinstance(base, ArrRef):
                base = with_prov(Slice(base.arr, bv(0), base.arr.len), base.prov)
            if not isinstance(base, Slice) or base.stride is not None:
                raise NotImplementedError('index projection on ' + type(base).__name__)
            i = s.load(st, fr, ('local', pl[2]))
            s.require(st, ULT(i, base.end - base.start), 'slice index out of bounds in an index projection', 'index')
            return ('val', with_prov(ElemPtr(base.arr, base.start + i), base.prov))
        raise NotImplementedError('place kind ' + k)

    def place_prov(s, st, fr, pl):
        """write permission of a place: an owned local (and its fields) may be written; behind a pointer, what the pointer allows"""
        k = pl[0]
        if k == 'local':
            return 'mut'
        if k == 'deref':
            try:
                v = s.load(st, fr, pl[1])
            except NotImplementedError:
                return None
            return getattr(v, 'prov', None) if isinstance(v, _Ptr) else ('mut' if isinstance(v, (BoxVal, BlockPtr)) else None)
        if k in ('field', 'downcast', 'index', 'cindex'):
            return s.place_prov(st, fr, pl[1])
        return None

    def load(s, st, fr, pl):
        cell, path = s.resolve(st, fr, pl)
        if cell == 'val':
            if isinstance(path, ArrRef):
                return path.arr
            if isinstance(path, ElemPtr):      # *ptr of an element pointer: the element place (used by `&raw mut (*_x)`)
                return path
            return path
        try:
            return st.get(cell, path)
        except (KeyError, TypeError):
            raise NotImplementedError('read of an unset place %s' % (pl,))

    def store(s, st, fr, pl, val):
        cell, path = s.resolve(st, fr, pl)
        if cell == 'val':
            raise NotImplementedError('store through abstract pointer')
        st.set(cell, path, val)

    # ---------------------------------------------------------------- operands / rvalues
    def const(s, c):
        c = c.strip()
        m = re.fullmatch(r'(\d+)_(usize|u8|u16|u32|u64|isize|i32|i64)', c)
        if m:
            return bv(int(m.group(1)))
        if c in ('true', 'false'):
            return z3.BoolVal(c == 'true')
        if re.fullmatch(r'<\w+ as (typenum::)?Unsigned>::USIZE', c):
            mm = re.match(r'<(\w+) as', c)
            return s.consts.get(mm.group(1), s.N)
        mw = re.fullmatch(r'<(\w+) as (?:typenum::)?Unsigned>::(U8|U16|U32|U64)', c)
        if mw:      # typenum's narrower constants wrap silently: N mod 2^k
            val, bits = s.consts.get(mw.group(1), s.N), int(mw.group(2)[1:])
            return val if bits == 64 else ((val % (1 << bits)) if is_int() else (val & bv((1 << bits) - 1)))
        mm = re.fullmatch(r'<<(\w+) as (?:core::ops::)?(Sub|Add)<(?:typenum::)?(\w+)>>::Output as (?:typenum::)?Unsigned>::USIZE', c)
        if mm:      # type-level difference / sum of two lengths
            val = lambda nm: bv(1) if nm == 'B1' else s.consts.get(nm, s.N)
            a, b = val(mm.group(1)), val(mm.group(3))
            return a - b if mm.group(2) == 'Sub' else a + b
        if c in ('()', 'LengthError'):
            return UNIT
        mz = re.match(r'ZeroSized: (\{closure@[^}]+\})$', c)
        if mz:      # a capture-less closure passed by value
            return {'__closure__': mz.group(1)}
        return Opaque(c)

    def operand(s, st, fr, t):
        t = re.sub(r'^no_retag ', '', t.strip())
        if t.startswith(('copy ', 'move ')):
            return s.load(st, fr, s.parse_place(t[5:]))
        if t.startswith('const '):
            v = s.const(t[6:])
            if isinstance(v, Opaque):
                mc = re.fullmatch(r'(?:\w+::)*(?:\w+::<[^()]*>::|<[^()]*>::)?([A-Z][A-Z0-9_]*)', v.tag)
                items = CONST_ITEMS.get(mc.group(1)) if mc else None
                if items and len(items) == 1:      # one of the crate's own constants (unambiguous by name): its value, not an opaque token
                    return s.crate_const(st, items[0])
            return v
        if re.fullmatch(r'<\w+ as [\w:]+>::\w+', t) or re.fullmatch(r'(?:core::|std::)?mem::drop::<\w+>', t):      # a function item used as a value (e.g. <T as Clone>::clone, mem::drop)
            return Opaque(t)
        raise NotImplementedError('operand ' + t)

    def crate_const(s, st, item):
        """value of a constant item of the crate: a literal, or its MIR body run as a parameterless function (the paths are merged into one
        if-then-else term over the branch conditions, e.g. `size_of::<T>() == size_of::<U>() && ..`)"""
        if item[0] == 'lit':
            return s.const(item[1])
        base = len(st.pc)
        val = None
        for (s2, kind, v) in s.run_fn(st.clone(), item[1], []):
            if kind != 'ret' or not z3.is_expr(v):
                raise NotImplementedError('constant item %s does not evaluate to a scalar' % item[1].name)
            extra = s2.pc[base:]
            val = v if val is None else z3.If(z3.And(*extra) if extra else z3.BoolVal(True), v, val)
        if val is None:
            raise NotImplementedError('constant item %s has no evaluation path' % item[1].name)
        return z3.simplify(val)

    def div(s, st, a, b, rem=False):
        """64-bit udiv/urem via fresh q, r and the division lemma (raw bvudiv on symbolic operands does not finish)"""
        if is_int():
            return (a % b) if rem else (a / b)
        st.calls += 1
        q, r = mkint('q%d' % next(State._ids)), mkint('r%d' % next(State._ids))
        st.pc += [ULT(r, b), MULOK(q, b), ADDOK(q * b, r), a == q * b + r]
        return r if rem else q

    def slice_len(s, st, a):
        """number of elements of a slice value; for a slice of chunks that is the chunk count q with q * stride == extent"""
        if a.stride is None:
            return a.end - a.start
        q = mkint('chunks%d' % next(State._ids))
        if is_int():
            st.pc.append(z3.And(q >= 0, q < TWO64))
        st.pc += [MULOK(q, a.stride), q * a.stride == a.end - a.start]
        return q

    def rvalue(s, st, fr, t):
        t = t.strip()
        m = re.fullmatch(r'(AddWithOverflow|SubWithOverflow|MulWithOverflow)\((.+)\)', t)
        if m:
            a, b = [s.operand(st, fr, x) for x in split_top(m.group(2))]
            if is_int():
                if m.group(1)[0] == 'A':
                    return {0: z3.If(a + b >= TWO64, a + b - TWO64, a + b), 1: a + b >= TWO64}
                if m.group(1)[0] == 'S':
                    return {0: z3.If(a < b, a - b + TWO64, a - b), 1: a < b}
                return {0: z3.If(a * b >= TWO64, (a * b) % TWO64, a * b), 1: a * b >= TWO64}
            if m.group(1)[0] == 'A':
                return {0: a + b, 1: z3.Not(ADDOK(a, b))}
            if m.group(1)[0] == 'S':
                return {0: a - b, 1: ULT(a, b)}
            return {0: a * b, 1: z3.Not(MULOK(a, b))}
        m = re.fullmatch(r'(Lt|Gt|Le|Ge|Eq|Ne|Add|Sub|Mul|Div|Rem|BitAnd|BitOr|Shr|Shl|AddUnchecked|SubUnchecked|MulUnchecked|ShrUnchecked|ShlUnchecked)\((.+)\)', t)
        if m:
            a, b = [s.operand(st, fr, x) for x in split_top(m.group(2))]
            op = m.group(1).replace('Unchecked', '')
            if op in ('Div', 'Rem'):
                return s.div(st, a, b, rem=(op == 'Rem'))
            if z3.is_bool(a) and op in ('Eq', 'Ne'):
                return (a == b) if op == 'Eq' else (a != b)
            if isinstance(a, (ElemPtr, ArrRef)) or isinstance(b, (ElemPtr, ArrRef)):
                # pointers compare by ADDRESS: base + index * size_of::<T>() - for a zero-sized element type every element has the same address
                pa = ElemPtr(a.arr, bv(0)) if isinstance(a, ArrRef) else a
                pb = ElemPtr(b.arr, bv(0)) if isinstance(b, ArrRef) else b
                if not (isinstance(pa, ElemPtr) and isinstance(pb, ElemPtr) and pa.arr is pb.arr and not pa.cast and not pb.cast):
                    raise NotImplementedError('comparison of pointers into different objects / of different element types')
                zst = s.S == 0
                if op in ('Eq', 'Ne'):
                    same = z3.Or(pa.idx == pb.idx, zst)
                    return same if op == 'Eq' else z3.Not(same)
                cmpf = {'Lt': ULT, 'Gt': UGT, 'Le': ULE, 'Ge': UGE}.get(op)
                if cmpf is None:
                    raise NotImplementedError('pointer operation ' + op)
                return z3.If(zst, z3.BoolVal(op in ('Le', 'Ge')), cmpf(pa.idx, pb.idx))
            if not all(z3.is_expr(x) for x in (a, b)):
                raise NotImplementedError('binary operation %s on %s / %s' % (op, type(a).__name__, type(b).__name__))
            if is_int() and op in ('BitAnd', 'BitOr', 'Shl'):
                if op == 'BitAnd' and z3.is_int_value(b) and (b.as_long() + 1) & b.as_long() == 0:
                    return a % (b.as_long() + 1)
                if op == 'Shl' and z3.is_int_value(b):
                    return (a * 2 ** b.as_long()) % TWO64
                raise NotImplementedError('bit operation %s in integer mode' % op)
            return {'Lt': ULT, 'Gt': UGT, 'Le': ULE, 'Ge': UGE, 'Eq': lambda x, y: x == y, 'Ne': lambda x, y: x != y,
                    'Add': lambda x, y: x + y, 'Sub': lambda x, y: x - y, 'Mul': lambda x, y: x * y,
                    'BitAnd': lambda x, y: x & y, 'BitOr': lambda x, y: x | y, 'Shr': LSHR, 'Shl': lambda x, y: x << y}[op](a, b)
        m = re.fullmatch(r'Not\((.+)\)', t)
        if m:
            a = s.operand(st, fr, m.group(1))
            return z3.Not(a) if z3.is_bool(a) else ~a
        m = re.fullmatch(r'PtrMetadata\((.+)\)', t)
        if m:
            v = s.operand(st, fr, m.group(1))
            if isinstance(v, Slice):
                return s.slice_len(st, v)
            raise NotImplementedError('PtrMetadata of ' + str(type(v)))
        if t.startswith('&'):
            bk = re.match(r'^&(raw mut |raw const |mut )?', t).group(1)
            pl = s.parse_place(re.sub(r'^&(raw mut |raw const |mut )?(\(fake\) )?', '', t))
            base = s.place_prov(st, fr, pl)
            if bk == 'mut ':
                s.require(st, z3.BoolVal(base != 'shared'), 'mutable reference created from a pointer that was derived through a shared borrow (writes through it are undefined behaviour)', '%s (&mut borrow)' % s.cur_fn.name.split('>::')[-1])
            prov = 'shared' if bk is None else ('mut' if bk == 'mut ' else base)
            cell, path = s.resolve(st, fr, pl)
            if cell == 'val':
                if bk in (None, 'mut ') and isinstance(path, ElemPtr) and path.cast:
                    ml = re.search(r'^\*(?:const|mut) GenericArray<\w+, (\w+)>$', path.cast)
                    if ml:      # a REFERENCE to a whole GenericArray<T, L> must cover L elements of its source (validity invariant, also if it is discarded)
                        need = s.consts.get(ml.group(1), s.N)
                        s.require(st, z3.And(ADDOK(path.idx, need), ULE(path.idx + need, path.arr.len)),
                                  'reference to a GenericArray created over fewer elements than its length (dangling reference: undefined behaviour even if the reference is discarded)', '%s (borrow)' % s.cur_fn.name.split('>::')[-1])
                return with_prov(path, prov)
            try:
                tgt = st.get(cell, path)
            except (KeyError, TypeError):
                tgt = None
            if isinstance(tgt, Arr):
                return with_prov(ArrRef(tgt), prov)
            return with_prov(Ref(cell, path), prov)
        m = split_cast(t)
        if m:
            v = s.operand(st, fr, m.group(1))
            ty = m.group(2)
            if 'Unsize' in m.group(3):
                mo = re.fullmatch(r'(?:copy|move) (_\d+)', m.group(1).strip())
                lty = s.cur_fn.ltypes.get(mo.group(1), '') if mo else ''
                ml = re.search(r'; (\d+)\]$', lty)
                if ml and isinstance(v, (Opaque, Ref)) and ml.group(1) == '0':
                    return Slice(Arr('empty', bv(0)), bv(0), bv(0))   # &[X; 0] -> &[X]
                if ml and isinstance(v, ArrRef):
                    return with_prov(Slice(v.arr, bv(0), v.arr.len), v.prov)
                if ml and isinstance(v, Opaque):
                    return Slice(Arr('const', bv(int(ml.group(1)))), bv(0), bv(int(ml.group(1))))
            if m.group(3) == 'IntToInt' and ty.strip() in ('u8', 'u16', 'u32') and z3.is_expr(v) and not z3.is_bool(v):
                # a narrowing integer cast truncates (every integer is carried as a 64-bit word; the narrow types keep their range this way)
                bits = int(ty.strip()[1:])
                return (v % (1 << bits)) if is_int() else (v & bv((1 << bits) - 1))
            if isinstance(v, ElemPtr) and re.search(r'GenericArray<', ty):
                nv = with_prov(ElemPtr(v.arr, v.idx, cast=norm(ty)), v.prov)
                if getattr(v, 'epoch', None) is not None:
                    nv.epoch = v.epoch
                return nv
            if isinstance(v, ArrRef) and re.fullmatch(r'\*(const|mut) (T|MaybeUninit<T>)', norm(ty)):
                return with_prov(ElemPtr(v.arr, bv(0)), v.prov)
            if isinstance(v, (ElemPtr, ArrRef)) and norm(ty) in ('usize', 'isize') :
                # the numeric address of a pointer: base(object) + index * size_of::<T>()
                pv_ = v if isinstance(v, ElemPtr) else ElemPtr(v.arr, bv(0))
                if pv_.cast:
                    raise NotImplementedError('address of a chunk pointer')
                key_ = 'addr_' + pv_.arr.name
                if key_ not in s.consts:
                    s.consts[key_] = mkint(key_)
                # an allocated object does not wrap around the address space (and is at most isize::MAX bytes long)
                st.pc += [MULOK(pv_.arr.len, s.S), ULE(pv_.arr.len * s.S, bv(2 ** 63 - 1)), ULE(s.consts[key_], bv(2 ** 63)), UGE(s.consts[key_], bv(1))]
                return s.consts[key_] + pv_.idx * s.S
            if 'Transmute' in m.group(3) and isinstance(v, Slice):
                # a fat pointer keeps its LENGTH WORD (element count): reinterpreting `&[Chunk]` as `&[T]` (or back) does not rescale it
                tgt_chunk = bool(re.match(r"^&(?:'\w+ )?(?:mut )?\[(?:GenericArray<|\[)", norm(ty)))
                if v.stride is not None and not tgt_chunk:
                    cnt = s.slice_len(st, v)
                    v = with_prov(Slice(v.arr, v.start, v.start + cnt), v.prov)
                elif v.stride is None and tgt_chunk:
                    cnt = v.end - v.start
                    s.require(st, z3.And(MULOK(cnt, s.N), ULE(v.start + cnt * s.N, v.arr.len)), 'slice reference transmuted to a slice of chunks: the unscaled length reaches beyond the source', 'transmute')
                    v = with_prov(Slice(v.arr, v.start, v.start + cnt * s.N, stride=s.N), v.prov)
            if 'Transmute' in m.group(3) and isinstance(v, _Ptr) and norm(ty).startswith('&mut'):
                s.require(st, z3.BoolVal(v.prov != 'shared'), 'mutable reference created (transmute) from a pointer that was derived through a shared borrow', 'transmute')
            return v
        m = re.fullmatch(r'discriminant\((.+)\)', t)
        if m:
            v = s.load(st, fr, s.parse_place(m.group(1)))
            if isinstance(v, Enum):
                return bv(DISCR[v.variant])
            raise NotImplementedError('discriminant of non-enum')
        if t.startswith('{closure@'):
            span = t[:t.index('}') + 1]
            rest = t[len(span):].strip()
            ops = [x.split(': ', 1)[1] for x in split_top(rest[1:-1])] if rest else []
            vals = [s.operand(st, fr, x) for x in ops]
            # rustc's MIR pretty-printer pairs the captured *variables'* names with the capture operands and stops at the shorter list: a closure
            # that captures two fields of one variable (`iter.array`, `iter.index_back`) is printed with its first capture only. The missing
            # captures are the references taken immediately before the aggregate that nothing else in the block uses, in order.
            cf = s.closures.get(span)
            if cf is not None and getattr(s, '_stmt_ctx', None):
                need = 1 + max([int(k) for b_ in cf.blocks.values() for l_ in b_ for k in re.findall(r'\(\*_1\)\.(\d+)|\(_1\.(\d+)', l_) for k in k if k] or [-1])
                if need > len(vals):
                    stmts_, si_ = s._stmt_ctx
                    used = set(re.findall(r'_\d+', ' '.join(ops)))
                    cand = []
                    for l_ in stmts_[:si_]:
                        mm_ = re.match(r'(_\d+) = &(?:mut |raw (?:mut|const) )?', l_)
                        if mm_ and mm_.group(1) not in used and not any(re.search(r'\b%s\b' % mm_.group(1), o_) for o_ in stmts_[:si_] + stmts_[si_ + 1:] if o_ is not l_):
                            cand.append(mm_.group(1))
                    if len(vals) + len(cand) != need:
                        raise NotImplementedError('closure aggregate printed with %d of %d captures (lossy MIR dump) and the missing ones cannot be identified' % (len(vals), need))
                    # captures are stored in capture order: the printed operand is the first one
                    vals += [s.load(st, fr, ('local', c_)) for c_ in cand]
            d = dict(enumerate(vals))
            d['__closure__'] = span
            return d
        tn = norm(t)
        m = re.fullmatch(r'(?:Option|Result)::<.*>::(Some|Ok|Err)\((.+)\)', tn)
        if m:
            return Enum(m.group(1), {0: s.operand(st, fr, m.group(2))})
        if re.fullmatch(r'Option::<.*>::None', tn):
            return Enum('None', {})
        if tn == 'LengthError':
            return UNIT
        m = re.fullmatch(r'([\w:]*Union)(::<.*>)? \{ (\w+): (.*) \}', t)
        if m:      # a union literal: every field reads back the same bits
            return {'__union__': s.operand(st, fr, m.group(4))}
        m = re.fullmatch(r'[\w:]+(::<.*>)? \{ (.*) \}', t)
        if m:
            return dict(enumerate(s.operand(st, fr, x.split(': ', 1)[1]) for x in split_top(m.group(2))))
        if (t.startswith('(') and t.endswith(')') and not t.startswith(('(*', '(('))) or re.fullmatch(r'\((copy|move|const) .*\)', t):
            return dict(enumerate(s.operand(st, fr, x) for x in split_top(t[1:-1])))
        m = re.fullmatch(r'\[const 0_u8; (\d+)\]', t)
        if m:
            st.calls += 1
            a = Arr('Stack%d' % st.calls, bv(int(m.group(1))), kind='bytes')
            return a
        m = re.fullmatch(r'\[(.*)\]', t)
        if m:
            return dict(enumerate(s.operand(st, fr, x) for x in split_top(m.group(1))))
        return s.operand(st, fr, t)

    # ---------------------------------------------------------------- iterator pipelines (summaries of core adaptors)
    def iter_next(s, st, cell, path, where):
        """-> [(state, 'some'|'none'|'unwind', value)]; mutates the iterator record inside the returned state"""
        r = st.get(cell, path)
        if isinstance(r, Ref):
            return s.iter_next(st, r.cell, r.path, where)
        if isinstance(r, dict) and 'kind' not in r:      # a `Range<usize>` aggregate reached through `&mut` (as_iter only sees by-value arguments)
            r2 = s.as_iter(r)
            if r2 is r:
                raise NotImplementedError('next() of a value that is not a known iterator: %r' % (sorted(map(str, r.keys())),))
            st.set(cell, path, r2)
            r = st.get(cell, path)
        k = r['kind']
        if k == 'range':
            out = []
            has = ULT(r['pos'], r['end'])
            if s.feasible(st, has):
                s1 = st.clone()
                s1.pc.append(has)
                r1 = s1.get(cell, path)
                v = r1['pos']
                r1['pos'] = r1['pos'] + 1
                out.append((s1, 'some', v))
            if s.feasible(st, z3.Not(has)):
                s2 = st.clone()
                s2.pc.append(z3.Not(has))
                out.append((s2, 'none', None))
            return out
        if k in ('slice', 'rslice'):
            out = []
            has = ULT(r['pos'], r['end'])
            if s.feasible(st, has):
                s1 = st.clone()
                s1.pc.append(has)
                r1 = s1.get(cell, path)
                if k == 'slice':
                    v = ElemPtr(r1['arr'], r1['pos'])
                    r1['pos'] = r1['pos'] + 1
                else:
                    r1['end'] = r1['end'] - 1
                    v = ElemPtr(r1['arr'], r1['end'])
                out.append((s1, 'some', v))
            if s.feasible(st, z3.Not(has)):
                s2 = st.clone()
                s2.pc.append(z3.Not(has))
                out.append((s2, 'none', None))
            return out
        if k == 'enumerate':
            out = []
            for (s1, kk, v) in s.iter_next(st, cell, path + ('inner',), where):
                if kk == 'some':
                    r1 = s1.get(cell, path)
                    v = {0: r1['count'], 1: v}
                    r1['count'] = r1['count'] + 1
                out.append((s1, kk, v))
            return out
        if k == 'map':
            out = []
            for (s1, kk, v) in s.iter_next(st, cell, path + ('inner',), where):
                if kk != 'some':
                    out.append((s1, kk, v))
                    continue
                clo = s1.get(cell, path + ('clo',))
                for (s2, k2, v2) in s.call_closure(s1, clo, Ref(cell, path + ('clo',)), [v], where):
                    out.append((s2, 'some' if k2 == 'ret' else 'unwind', v2))
            return out
        if k == 'zip':      # default Zip: a.next() first, then b.next(); stop at the first None
            out = []
            for (s1, ka, va) in s.iter_next(st, cell, path + ('a',), where):
                if ka != 'some':
                    out.append((s1, ka, va))
                    continue
                for (s2, kb, vb) in s.iter_next(s1, cell, path + ('b',), where):
                    if kb == 'none':
                        # the item already taken from `a` is dropped by Zip (it is a reference or an owned value)
                        if isinstance(va, Elem):
                            s.ev_drop_elem(s2, va, where)
                    out.append((s2, kb, {0: va, 1: vb} if kb == 'some' else vb))
            return out
        if k == 'chunks':
            out = []
            has = ULT(r['pos'], r['end'])
            if s.feasible(st, has):
                s1 = st.clone()
                s1.pc.append(has)
                i1 = s1.get(cell, path)
                rem = i1['end'] - i1['pos']
                ln = z3.If(ULE(i1['size'], rem), i1['size'], rem)
                v = Slice(i1['arr'], i1['pos'], i1['pos'] + ln)
                i1['pos'] = i1['pos'] + ln
                out.append((s1, 'some', v))
            if s.feasible(st, z3.Not(has)):
                s2 = st.clone()
                s2.pc.append(z3.Not(has))
                out.append((s2, 'none', None))
            return out
        if k == 'cloned':      # Iterator::cloned over references to elements: next() = inner.next().map(T::clone)
            out = []
            for (s1, kk, v) in s.iter_next(st, cell, path + ('inner',), where):
                if kk != 'some':
                    out.append((s1, kk, v))
                    continue
                for (s2, k2, v2) in s.call(s1, '<T as Clone>::clone', [v], where):
                    out.append((s2, 'some' if k2 == 'ret' else 'unwind', v2))
            return out
        if k == 'from_fn':      # core::iter::from_fn(f): next() = f()
            cc = st.new_cell(r['clo']) if not isinstance(r['clo'], Ref) else r['clo'].cell
            out = []
            for (s1, k2, v2) in s.call_closure2(st, cc, [], where):
                if k2 != 'ret':
                    out.append((s1, 'unwind', None))
                elif v2.variant == 'Some':
                    out.append((s1, 'some', v2.fields[0]))
                else:
                    out.append((s1, 'none', None))
            return out
        if k == 'take':
            rem = r['n']
            out = []
            if s.feasible(st, rem == 0):
                s0 = st.clone()
                s0.pc.append(rem == 0)
                out.append((s0, 'none', None))
            if s.feasible(st, rem != 0):
                s1 = st.clone()
                s1.pc.append(rem != 0)
                s1.get(cell, path)['n'] = rem - 1
                out += s.iter_next(s1, cell, path + ('inner',), where)
            return out
        if k == 'source':   # caller-supplied iterator I: next() may yield a fresh owned item, end, or panic
            return s.source_next(st, cell, path, where)
        if k == 'crateit':   # an iterator struct defined in the crate: run its own `next` body
            fn = s.pick(s.index[('Iterator', r['ty'], 'next')])
            tgt = r['it'] if isinstance(r['it'], Ref) else Ref(cell, path + ('it',))
            out = []
            for (s1, kk, v) in s.run_fn(st, fn, [tgt]):
                if kk != 'ret':
                    out.append((s1, 'unwind', None))
                elif v.variant == 'Some':
                    out.append((s1, 'some', v.fields[0]))
                else:
                    out.append((s1, 'none', None))
            return out
        if k == 'gaiter':   # the crate's own by-value iterator used as a source (e.g. trait-default zip over an owned array)
            fn = s.pick(s.index[('Iterator', 'GenericArrayIter', 'next')])
            out = []
            for (s1, kk, v) in s.run_fn(st, fn, [Ref(cell, path + ('it',))]):
                if kk != 'ret':
                    out.append((s1, 'unwind', None))
                elif v.variant == 'Some':
                    out.append((s1, 'some', v.fields[0]))
                else:
                    out.append((s1, 'none', None))
            return out
        raise NotImplementedError('iterator kind ' + k)

    def source_next(s, st, cell, path, where):
        r = st.get(cell, path)
        out = []
        st.calls += 0
        # 1. panics
        if r.get('may_panic', True):
            s2 = st.clone()
            s2.events.append('source.next() panicked (after %s items)' % z3.simplify(r['yielded']))
            s.unwind_edges += 1
            out.append((s2, 'unwind', None))
        # 2. ends (only possible if not beyond its script): count items then None; not fused -> may yield again
        if 'count' in r:
            done = r['yielded'] == r['count']
            if s.feasible(st, done):
                s1 = st.clone()
                s1.pc.append(done)
                r1 = s1.get(cell, path)
                s.require(s1, z3.Not(r1['ended']), 'source polled again after it returned None', where)
                r1['ended'] = z3.BoolVal(True)
                s1.events.append('source.next() -> None')
                out.append((s1, 'none', None))
            more = ULT(r['yielded'], r['count'])
            if s.feasible(st, more):
                s1 = st.clone()
                s1.pc.append(more)
                r1 = s1.get(cell, path)
                k, v = s.fresh_value(s1, 'item')
                r1['yielded'] = r1['yielded'] + 1
                s1.events.append('source.next() -> item #%d' % k)
                out.append((s1, 'some', v))
        return out

    @staticmethod
    def as_iter(v):
        """a `Range<usize>` aggregate used as an iterator"""
        if isinstance(v, dict) and 'kind' not in v and '__closure__' not in v and set(v.keys()) == {0, 1} and z3.is_expr(v[0]) and z3.is_expr(v[1]) and not z3.is_bool(v[0]):
            return {'kind': 'range', 'pos': v[0], 'end': v[1]}
        return v

    def size_hint(s, st, r):
        if isinstance(r, Ref):
            return s.size_hint(st, st.get(r.cell, r.path))
        if isinstance(r, dict) and r.get('kind') == 'crateit':
            lst = s.index.get(('Iterator', r['ty'], 'size_hint'))
            if lst is None:      # Iterator's provided method
                return {0: bv(0), 1: Enum('None', {})}
            if not isinstance(r['it'], Ref):
                r = dict(r); r['it'] = Ref(st.new_cell(r['it']), ())
            outs = [(s1, kk, v) for (s1, kk, v) in s.run_fn(st.clone(), s.pick(lst), [r['it']])]
            if len(outs) != 1 or outs[0][1] != 'ret':
                raise NotImplementedError('size_hint of the crate iterator %s has more than one outcome' % r['ty'])
            return outs[0][2]
        if r['kind'] == 'range':
            n = z3.If(ULE(r['pos'], r['end']), r['end'] - r['pos'], bv(0))
            return {0: n, 1: Enum('Some', {0: n})}
        if r['kind'] in ('slice', 'rslice'):
            n = r['end'] - r['pos']
            return {0: n, 1: Enum('Some', {0: n})}
        if r['kind'] in ('map', 'enumerate', 'cloned'):
            return s.size_hint(st, r['inner'])
        if r['kind'] == 'source':
            return r['hint']
        if r['kind'] == 'zip':
            a, b = s.size_hint(st, r['a']), s.size_hint(st, r['b'])
            lo = z3.If(ULE(a[0], b[0]), a[0], b[0])
            if a[1].variant == 'Some' and b[1].variant == 'Some':
                x, y = a[1].fields[0], b[1].fields[0]
                hi = Enum('Some', {0: z3.If(ULE(x, y), x, y)})
            else:
                hi = a[1] if a[1].variant == 'Some' else b[1]
            return {0: lo, 1: hi}
        raise NotImplementedError('size_hint of ' + r['kind'])

    def call_closure(s, st, clo, cloref, args, where):
        if isinstance(clo, dict) and '__closure__' in clo:
            fn = s.closures[clo['__closure__']]
            a = [cloref] + ([dict(enumerate(args))] if len(args) > 1 or fn.ptypes[1].startswith('(') and len(args) == 1 and not isinstance(args[0], dict) and False else args)
            if len(fn.params) == 2 and len(args) == 1:
                a = [cloref, args[0]]
            return s.run_fn(st, fn, a)
        if isinstance(clo, Opaque) and re.fullmatch(r'(?:core::|std::)?mem::drop::<\w+>', clo.tag):
            return s.call(st, clo.tag, list(args), where)      # `mem::drop` passed as a function value: the drop glue of its argument
        # opaque caller closure
        return s.extern_call(st, args, where, 'f')

    def order_check(s, st, args, where, label):
        """`order` mode: the k-th call of caller code (k = 0, 1, ...) is the one for index k: it receives element k of every input / the
        index k itself"""
        if not s.order:
            return
        k = bv(0) if st.vid is None else st.vid
        for a in (args.values() if isinstance(args, dict) else args):
            if isinstance(a, (Elem, ElemPtr)) and a.arr is not s.V and not getattr(a, 'cast', None):
                s.require(st, a.idx == k, 'call #k of the caller\'s function does not receive element k (order / once-per-index)', where)
            elif z3.is_expr(a) and not z3.is_bool(a):
                s.require(st, a == k, 'call #k of the caller\'s function does not receive index k', where)
            elif isinstance(a, dict) and '__closure__' not in a:
                s.order_check(st, a, where, label)

    def extern_call(s, st, args, where, label, returns_value=True):
        """caller-supplied code: consumes its by-value arguments, may return a fresh value or panic"""
        s.order_check(st, args, where, label)
        for a in args:
            s.ev_extern(st, a)
        st.calls += 1
        k = st.calls
        st.events.append('call %s #%d' % (label, k))
        s2 = st.clone()
        s2.events.append('  ^%s panicked (call #%d)' % (label, k))
        s.unwind_edges += 1
        if returns_value:
            vid = s.next_vid(st)
            st.status[s.V] = z3.If(s.J == vid, HELD, s.stat(st, s.V))
            return [(st, 'ret', Elem(s.V, vid)), (s2, 'unwind', None)]
        return [(st, 'ret', UNIT), (s2, 'unwind', None)]

    # ---------------------------------------------------------------- loop summary by an auto-checked invariant template
    def _leaf_pairs(s, a, b, path=()):
        """walk two values of identical shape; yield (path, leaf_a, leaf_b); raise ValueError if the shapes differ"""
        if z3.is_expr(a) or z3.is_expr(b):
            if not (z3.is_expr(a) and z3.is_expr(b)) or a.sort() != b.sort():
                raise ValueError('sort change at %s' % (path,))
            yield (path, a, b)
        elif isinstance(a, dict) and isinstance(b, dict):
            if set(a) != set(b):
                raise ValueError('keys change at %s' % (path,))
            for k in a:
                if k == '__closure__':
                    if a[k] != b[k]:
                        raise ValueError('closure change')
                    continue
                yield from s._leaf_pairs(a[k], b[k], path + (k,))
        elif isinstance(a, Enum) and isinstance(b, Enum):
            if a.variant != b.variant:
                raise ValueError('enum variant change at %s' % (path,))
            yield from s._leaf_pairs(a.fields, b.fields, path)
        elif isinstance(a, Slice) and isinstance(b, Slice):
            if a.arr is not b.arr:
                raise ValueError('slice object change')
            yield (path + ('start',), a.start, b.start)
            yield (path + ('end',), a.end, b.end)
        elif isinstance(a, (ElemPtr, Elem)) and type(a) is type(b):
            if a.arr is not b.arr:
                raise ValueError('pointer object change')
            yield (path + ('idx',), a.idx, b.idx)
        elif isinstance(a, Ref) and isinstance(b, Ref):
            if a.cell != b.cell or a.path != b.path:
                raise ValueError('reference change')
        elif isinstance(a, ArrRef) and isinstance(b, ArrRef):
            if a.arr is not b.arr:
                raise ValueError('array reference change')
        elif a is b or (isinstance(a, Opaque) and isinstance(b, Opaque) and a.tag == b.tag) or a == b:
            return
        elif a is None and b is None:
            return
        else:
            raise ValueError('value change at %s: %r -> %r' % (path, a, b))

    def _subst_leaves(s, v, repl, path=()):
        """copy of v with the z3 leaves listed in repl (path -> new term) replaced"""
        if z3.is_expr(v):
            return repl.get(path, v)
        if isinstance(v, dict):
            return {k: (x if k == '__closure__' else s._subst_leaves(x, repl, path + (k,))) for k, x in v.items()}
        if isinstance(v, Enum):
            return Enum(v.variant, s._subst_leaves(v.fields, repl, path))
        if isinstance(v, Slice):
            return Slice(v.arr, repl.get(path + ('start',), v.start), repl.get(path + ('end',), v.end), v.stride)
        if isinstance(v, ElemPtr):
            return ElemPtr(v.arr, repl.get(path + ('idx',), v.idx), v.cast)
        if isinstance(v, Elem):
            return Elem(v.arr, repl.get(path + ('idx',), v.idx))
        return v

    def _uniq_state(s, st, term):
        for cand in (UNINIT, LIVE, HELD, EXTERN, DROPPED, STORED):
            so = s._solver()
            so.add(*st.pc)
            so.add(term != cand)
            s.nq += 1
            if so.check() == z3.unsat:
                return cand
        return None

    def _build_inv(s, st0, st1, where):
        """Inv(K) from the entry state st0 and the state st1 after one iteration; returns (inv_state, template) or None"""
        K = mkint('K%d' % next(State._ids))
        inv = st0.clone()
        inv.pc = list(st0.pc)
        if is_int():
            inv.pc.append(z3.And(K >= 0, K < TWO64))
        deltas = {}
        try:
            for cell in st0.heap:
                if cell not in st1.heap:
                    return None
                repl = {}
                for (path, a, b) in s._leaf_pairs(st0.heap[cell], st1.heap[cell]):
                    if a.eq(b):
                        continue
                    if z3.is_bool(a):
                        return None
                    d = z3.simplify(b - a)
                    if not (z3.is_bv_value(d) or z3.is_int_value(d)):
                        return None
                    repl[path] = a + K * d
                    deltas[(cell, path)] = d
                if repl:
                    inv.heap[cell] = s._subst_leaves(st0.heap[cell], repl)
        except ValueError:
            return None
        # the iteration number never exceeds what the underlying slice iterators (and a scripted source) can still deliver
        def walk(v0_, vk_):
            if isinstance(vk_, dict):
                if vk_.get('kind') == 'slice':
                    inv.pc.append(z3.And(ULE(v0_['pos'], vk_['pos']), ULE(vk_['pos'], vk_['end'])))
                if vk_.get('kind') == 'range':
                    inv.pc.append(z3.And(ULE(v0_['pos'], vk_['pos']), z3.Or(ULE(vk_['pos'], vk_['end']), UGT(v0_['pos'], v0_['end']))))
                if vk_.get('kind') == 'rslice':
                    inv.pc.append(z3.And(ULE(vk_['end'], v0_['end']), ULE(vk_['pos'], vk_['end'])))
                if vk_.get('kind') == 'take':      # the remaining budget of a Take adaptor only counts down (never wraps)
                    inv.pc.append(ULE(vk_['n'], v0_['n']))
                if vk_.get('kind') == 'source' and 'count' in vk_:
                    inv.pc.append(z3.And(ULE(v0_['yielded'], vk_['yielded']), ULE(vk_['yielded'], vk_['count'])))
                for k_ in vk_:
                    if k_ != '__closure__' and isinstance(vk_[k_], (dict, Enum)):
                        walk(v0_[k_], vk_[k_])
            elif isinstance(vk_, Enum):
                walk(v0_.fields, vk_.fields)
        for cell in st0.heap:
            if isinstance(inv.heap.get(cell), (dict, Enum)):
                walk(st0.heap[cell], inv.heap[cell])
        inv.pc.append(ULT(K, bv(2 ** 63)))
        # auxiliary candidate: a pointer that advances by one element per iteration stays inside [start, one-past-the-end] of its object
        # (needed for loops guarded by pointer inequality `p != end`; checked inductively in _check_step like everything else)
        aux = []
        for (cell, path), d in deltas.items():
            if path and path[-1] == 'idx' and d.as_long() == 1:
                v_ = st0.heap[cell]
                try:
                    for k_ in path[:-1]:
                        v_ = v_.fields[k_] if isinstance(v_, Enum) else v_[k_]
                except (KeyError, TypeError, AttributeError):
                    continue
                if isinstance(v_, ElemPtr) and valid_in(s, st0, ULE(v_.idx, v_.arr.len)):
                    aux.append((v_.idx, v_.arr.len))
                    inv.pc.append(ULE(v_.idx + K, v_.arr.len))
        # facts the learning iteration established about symbols that already existed on entry (e.g. "the element size is not zero", taken
        # from a pointer-inequality loop guard) are facts about the whole execution: they hold whenever at least one iteration has run
        entry_vars = set()
        for f_ in st0.pc:
            entry_vars |= free_vars(f_)
        for cell in st0.heap:
            for (_, a_, _) in s._leaf_pairs(st0.heap[cell], st0.heap[cell]):
                entry_vars |= free_vars(a_)
        for t_ in st0.status.values():
            entry_vars |= free_vars(t_)
        entry_vars |= {str(x) for x in (s.N, s.J, s.S, s.SZ)} | {str(x) for x in s.needs_drop.values()} | {str(x) for x in s.consts.values()}
        if len(st1.pc) >= len(st0.pc) and all(a_ is b_ or a_.eq(b_) for a_, b_ in zip(st0.pc, st1.pc)):
            for f_ in st1.pc[len(st0.pc):]:
                if free_vars(f_) <= entry_vars:
                    inv.pc.append(z3.Implies(UGE(K, bv(1)), f_))
        # fresh-value counter
        v0 = bv(0) if st0.vid is None else st0.vid
        v1 = bv(0) if st1.vid is None else st1.vid
        dv = z3.simplify(v1 - v0)
        if not (z3.is_bv_value(dv) or z3.is_int_value(dv)) or dv.as_long() not in (0, 1):
            return None
        inv.vid = v0 + K * dv
        # ledger: per array, one index (or a two-element "trail") changes per iteration; the index is a *term* over the entry state:
        # the old value of an advancing counter, the new value of a retreating one, or the id of the value produced by caller code
        cands = []
        for (cell, path), d in deltas.items():
            a0 = None
            for (pth, x, _) in s._leaf_pairs(st0.heap[cell], st0.heap[cell]):
                if pth == path:
                    a0 = x
            if a0 is None:
                continue
            dl = d.as_long()
            if dl == 1:
                cands.append((a0, 1))
            elif (is_int() and dl == -1) or (not is_int() and dl == 2 ** W - 1):
                cands.append((a0 - 1, -1))
        cands.append((v0 + 1, 1))
        cands.append((v0, 1))

        def valid(stx, f):
            so = s._solver()
            so.add(*stx.pc)
            so.add(z3.Not(f))
            s.nq += 1
            return so.check() == z3.unsat

        def in_range(c, dj, k):
            return z3.And(UGE(s.J, c), ULT(s.J, c + k)) if dj == 1 else z3.And(UGE(s.J, c + 1 - k), ULE(s.J, c))
        ledger_t = {}
        for arr in st1.status:
            t1, t0 = st1.status[arr], st0.status.get(arr, UNINIT)
            if t1.eq(t0) or valid(st1, t1 == t0):
                continue
            found = None
            for (c, dj) in cands:
                if valid(st1, z3.Implies(t1 != t0, s.J == c)):
                    found = (c, dj, None)
                    break
            if found is None:
                for (c, dj) in cands:
                    if dj == 1 and valid(st1, z3.Implies(t1 != t0, z3.Or(s.J == c, s.J == c + 1))):
                        found = (c, dj, 'trail')
                        break
            if found is None:
                return None
            c, dj, trail = found
            s1j = st1.clone()
            s1j.pc.append(s.J == c)
            after = s._uniq_state(s1j, t1)
            if after is None:
                return None
            if trail is None:
                ledger_t[arr] = (c, dj, after, None)
                inv.status[arr] = z3.If(in_range(c, dj, K), after, t0)
            else:
                s1k = st1.clone()
                s1k.pc.append(s.J == c + 1)
                head = s._uniq_state(s1k, t1)
                if head is None:
                    return None
                ledger_t[arr] = (c, dj, after, head)
                inv.status[arr] = z3.If(in_range(c, dj, K), after, z3.If(s.J == c + K, head, t0))
                s.require(st0, z3.Implies(s.J == c, t0 == head), 'loop invariant template: base case (state of the value at the head of the trail)', where)
        inv.events = list(st0.events) + ['... %s iterations (by induction: counters %s, one element of %s per iteration) ...' % (
            K, sorted({str(d) for d in deltas.values()}), sorted(a.name for a in ledger_t))]
        s.discharged.append(('loop invariant template instantiated', where))
        # vacuity guard: the hypothesis must be satisfiable for a non-zero number of iterations
        if not s.feasible(inv, UGE(K, bv(1))):
            return None
        tmpl = {'K': K, 'deltas': deltas, 'v0': v0, 'dv': dv, 'ledger': ledger_t, 'st0': st0, 'in_range': in_range, 'aux': aux}
        return inv, tmpl

    def _check_step(s, tmpl, sb, where):
        """sb (the state after one more iteration from Inv(K)) must be Inv(K+1)"""
        K, deltas, v0, dv, ledger_t, st0, in_range = (tmpl[k] for k in ('K', 'deltas', 'v0', 'dv', 'ledger', 'st0', 'in_range'))
        try:
            for cell in st0.heap:
                for (path, a, b) in s._leaf_pairs(st0.heap[cell], sb.heap[cell]):
                    d = deltas.get((cell, path))
                    target = a if d is None else a + (K + 1) * d
                    if not b.eq(target):
                        s.require(sb, b == target, 'loop invariant not inductive (a counter / value does not advance as hypothesised)', where)
        except ValueError as e:
            raise Inconclusive('loop invariant template: heap shape changes inside the loop (%s)' % e)
        for (i0, ln) in tmpl.get('aux', []):
            s.require(sb, ULE(i0 + K + 1, ln), 'loop invariant not inductive (an advancing pointer leaves its object)', where)
        s.require(sb, (bv(0) if sb.vid is None else sb.vid) == v0 + (K + 1) * dv, 'loop invariant not inductive (number of values produced per iteration)', where)
        for arr in sb.status:
            t0 = st0.status.get(arr, UNINIT)
            if arr in ledger_t:
                c, dj, after, head = ledger_t[arr]
                if head is None:
                    target = z3.If(in_range(c, dj, K + 1), after, t0)
                else:
                    target = z3.If(in_range(c, dj, K + 1), after, z3.If(s.J == c + K + 1, head, t0))
            else:
                target = t0
            if not sb.status[arr].eq(target):
                s.require(sb, sb.status[arr] == target, 'loop invariant not inductive (ownership state of %s after one more iteration)' % arr.name, where)

    def for_each_inductive(s, st, ic, cc, where, ac=None):
        """Replace the unrolling of `iter.for_each(closure)` by induction over the iteration number K:
           (1) run iteration 0 to learn what one iteration changes (counters +d, ledger entries at one index);
           (2) hypothesise Inv(K): counters = entry + K*d, ledger[J] = after-state for the K indices already visited;
           (3) from Inv(K), K symbolic, run ONE iteration and require Inv(K+1) on every heap cell / ledger entry;
               the loop exit (next() == None) and every unwind edge are taken from Inv(K).
           Returns the loop's outcomes, or None if the template does not fit (the caller then falls back to bounded unrolling)."""
        st0 = st
        # ---- (1) learn from iteration 0
        firsts = [x for x in s.iter_next(st0.clone(), ic, (), where) if x[1] == 'some']
        if len(firsts) != 1:
            return None
        s1, _, v = firsts[0]
        rets = [x for x in s.call_closure2(s1, cc, [v] if ac is None else [s1.heap[ac], v], where) if x[1] == 'ret']
        if len(rets) != 1:
            return None
        st1 = rets[0][0]
        if ac is not None:
            st1.heap[ac] = rets[0][2]
        built = s._build_inv(st0, st1, where)
        if built is None:
            return None
        inv, tmpl = built
        # ---- (2)+(3) one iteration from Inv(K)
        out = []
        for (sa, kk, vv) in s.iter_next(inv, ic, (), where):
            if kk == 'none':
                out.append((sa, 'ret', UNIT if ac is None else sa.heap[ac]))
            elif kk == 'unwind':
                out.append((sa, 'unwind', None))
            else:
                for (sb, k2, r2) in s.call_closure2(sa, cc, [vv] if ac is None else [sa.heap[ac], vv], where):
                    if k2 != 'ret':
                        out.append((sb, 'unwind', None))
                        continue
                    if ac is not None:
                        sb.heap[ac] = r2
                    s._check_step(tmpl, sb, where)
        return out

    def for_each(s, st, itv, clo, where, fold_init=None, rev=False):
        ic, cc = st.new_cell(itv), st.new_cell(clo)
        if s.inductive and fold_init is None:
            res = s.for_each_inductive(st, ic, cc, where)
            if res is not None:
                s.inductive_used += 1
                return res
            s.inductive_failed += 1
            if s.inductive == 'strict':
                raise Inconclusive('loop invariant template does not fit the loop at %s' % where)
        if s.inductive and fold_init is not None:
            # a fold: iteration 0 is executed as is (the accumulator changes from the caller's initial value to a value produced by the
            # closure); the induction starts from the state after it, with the accumulator in a heap cell
            out = []
            ok = True
            for (s1, kk, v) in s.iter_next(st, ic, (), where):
                if kk == 'none':
                    out.append((s1, 'ret', fold_init))
                elif kk == 'unwind':
                    out.append((s1, 'unwind', None))
                else:
                    for (s2, k2, r2) in s.call_closure2(s1, cc, [fold_init, v], where):
                        if k2 != 'ret':
                            out.append((s2, 'unwind', None))
                            continue
                        ac = s2.new_cell(r2)
                        res = s.for_each_inductive(s2, ic, cc, where, ac=ac)
                        if res is None:
                            ok = False
                        else:
                            out += res
            if ok:
                s.inductive_used += 1
                return out
            s.inductive_failed += 1
            if s.inductive == 'strict':
                raise Inconclusive('loop invariant template does not fit the fold at %s' % where)
        out, work = [], [(st, 0, fold_init)]
        while work:
            st, k, acc = work.pop()
            for (s1, kk, v) in s.iter_next(st, ic, (), where):
                if kk == 'none':
                    out.append((s1, 'ret', UNIT if fold_init is None else acc))
                elif kk == 'unwind':
                    out.append((s1, 'unwind', None))
                else:
                    if k >= s.loop_cap:
                        raise Inconclusive('unwinding assertion: more than %d iterations feasible at %s' % (s.loop_cap, where))
                    args = [v] if fold_init is None else [acc, v]
                    if fold_init is not None:
                        args = [{0: acc, 1: v}] if False else [acc, v]
                    for (s2, k2, r2) in s.call_closure2(s1, cc, args, where):
                        if k2 == 'ret':
                            work.append((s2, k + 1, r2 if fold_init is not None else None))
                        else:
                            out.append((s2, 'unwind', None))
        return out

    def try_for_each(s, st, itv, clo, where, okv='Ok'):
        """Iterator::try_for_each with a closure returning Result / Option: stops at the first Err / None (bounded unrolling)"""
        ic, cc = st.new_cell(itv), st.new_cell(clo)
        out, work = [], [(st, 0)]
        while work:
            st, k = work.pop()
            for (s1, kk, v) in s.iter_next(st, ic, (), where):
                if kk == 'none':
                    out.append((s1, 'ret', Enum(okv, {0: UNIT})))
                elif kk == 'unwind':
                    out.append((s1, 'unwind', None))
                else:
                    if k >= s.loop_cap:
                        raise Inconclusive('unwinding assertion: more than %d iterations feasible at %s' % (s.loop_cap, where))
                    for (s2, k2, r2) in s.call_closure2(s1, cc, [v], where):
                        if k2 != 'ret':
                            out.append((s2, 'unwind', None))
                        elif isinstance(r2, Enum) and r2.variant in ('Err', 'None', 'Break'):
                            out.append((s2, 'ret', r2))
                        else:
                            work.append((s2, k + 1))
        return out

    def call_closure2(s, st, cc, args, where):
        clo = st.get(cc, ())
        if isinstance(clo, dict) and clo.get('__builtin__') == 'vec_push':
            v = st.get(clo['vec'].cell, clo['vec'].path)
            s.require(st, ULT(v['len'], st.notes['cap'][v['arr']]), 'Vec::extend pushes beyond the reserved capacity (reallocation is not modelled)', where)
            s.ev_write(st, v['arr'], v['len'], args[0], where)
            v['len'] = v['len'] + 1
            return [(st, 'ret', UNIT)]
        if isinstance(clo, dict) and '__closure__' in clo:
            fn = s.closures[clo['__closure__']]
            me = Ref(cc, ()) if fn.ptypes[0].startswith('&') else clo      # FnOnce closures take themselves by value
            if len(fn.params) == 2 and len(args) == 2:
                return s.run_fn(st, fn, [me, dict(enumerate(args))])
            return s.run_fn(st, fn, [me] + args)
        if isinstance(clo, Opaque) and re.fullmatch(r'(?:core::|std::)?mem::drop::<\w+>', clo.tag):
            return s.call(st, clo.tag, list(args), where)
        return s.extern_call(st, args, where, 'f')

    # ---------------------------------------------------------------- calls
    def call(s, st, callee, args, where):
        outs = s.call0(st, callee, args, where)
        # a pointer computed from a pointer keeps the write permission of its source
        src = next((a for a in args if isinstance(a, _Ptr) and not isinstance(a, Ref)), None)
        if src is not None and src.prov is not None and s.find_fn(callee) is None:
            outs = [(s1, k, s._spread_prov(v, src.prov) if k == 'ret' else v) for (s1, k, v) in outs]
        return outs

    def _spread_prov(s, v, prov):
        if isinstance(v, _Ptr) and not isinstance(v, Ref):
            return with_prov(v, prov) if v.prov is None else v
        if isinstance(v, dict) and '__closure__' not in v and v.get('kind') is None:
            return {k: s._spread_prov(x, prov) for k, x in v.items()}
        if isinstance(v, Enum):
            return Enum(v.variant, s._spread_prov(v.fields, prov))
        return v

    def call0(s, st, callee, args, where):
        cn = norm(callee)
        if re.search(r'from_raw_parts_mut::<', cn) and not re.search(r'slice_from_raw_parts_mut', cn) and isinstance(args[0], _Ptr):
            s.require(st, z3.BoolVal(args[0].prov != 'shared'), 'mutable slice created from a pointer that was derived through a shared borrow (writes through it are undefined behaviour)', where)
        if (re.search(r'(^|::)write::<[A-Z]\w*>$', cn) or re.search(r'<impl \*mut (T|MaybeUninit<T>)>::write$', cn)) and args and isinstance(args[0], _Ptr):
            s.require(st, z3.BoolVal(args[0].prov != 'shared'), 'write through a pointer that was derived through a shared borrow (undefined behaviour)', where)
        mt = re.match(r'^(?:crate::)?const_transmute::<GenericArray<(\w+), N>, <<GenericArray<T, N> as (?:\w+::)*MappedGenericSequence<T, (\w+)>>::Mapped as (?:\w+::)*GenericSequence<(\w+)>>::Sequence>$', cn)
        if mt and mt.group(1) == mt.group(2) == mt.group(3):
            # source and target are the same type once the projection is normalised (`MappedSequence<GenericArray<T, N>, T, U>` IS `GenericArray<U, N>`)
            s.summaries_used.add('const_transmute::<GenericArray<U, N>, MappedSequence<GenericArray<T, N>, T, U>> (identity: the two types are equal after normalisation)')
            return [(st, 'ret', args[0])]
        # stubs that take precedence over the crate's own bodies (hex encoder contract, the 2N-byte scratch buffer)
        if re.match(r'^hex_encode(_fallback)?::<UPPER>$', cn):
            src, dst = args
            sl, dl = src.end - src.start, dst.end - dst.start
            s.summaries_used.add('hex_encode / hex_encode_fallback (stub: contract dst.len() >= 2 * src.len(), writes the digits of src into dst[..2 * src.len()])')
            s.require(st, UGE(dl, sl + sl), 'hex encoder called with a destination shorter than 2 * source (unreachable_unchecked / unwrap_unchecked precondition)', where)
            st.notes = dict(st.notes)
            st.notes['encoded'] = st.notes.get('encoded', []) + [(src, dst)]
            return [(st, 'ret', UNIT)]
        if re.match(r'^<GenericArray<u8, <N as (core::ops::)?Add>::Output> as Default>::default$', cn):
            st.calls += 1
            s.summaries_used.add('GenericArray::<u8, Sum<N, N>>::default() (stub: a zeroed buffer of N + N bytes)')
            return [(st, 'ret', Arr('Buf%d' % st.calls, s.N + s.N, kind='bytes'))]
        fn = s.find_fn(callee)
        if fn is not None and not isinstance(fn, tuple) and re.search(r'GenericArray<u8, <N as (core::ops::)?Add>::Output>', callee):
            # the callee is instantiated at length N + N: bind its `N::USIZE`
            saved = dict(s.consts)
            s.consts['N'] = s.consts.get('N', s.N) + s.consts.get('N', s.N)
            try:
                return s.run_fn(st, fn, args)
            finally:
                s.consts = saved
        if isinstance(fn, tuple) and fn[0] == 'default':      # trait-provided body: `Self` is bound for its duration
            saved = s.self_binding
            s.self_binding = fn[2]
            try:
                return s.run_fn(st, fn[1], args)
            finally:
                s.self_binding = saved
        if isinstance(fn, tuple):      # &mut I forwarding impl
            a0 = args[0]
            if isinstance(a0, Ref):
                inner = st.get(a0.cell, a0.path)
                if isinstance(inner, Ref):
                    args = [inner] + args[1:]
            return s.run_fn(st, fn[1], args)
        if fn is not None:
            return s.run_fn(st, fn, args)
        c = norm(callee)
        R = lambda v: [(st, 'ret', v)]
        s.summaries_used.add(re.sub(r'::<.*?>(?=::|$)', '', re.sub(r'<[^<>]*(<[^<>]*(<[^<>]*>[^<>]*)*>[^<>]*)*>', '<..>', c))[:80])
        # ---- core helpers on usize / Option<usize> / raw-pointer methods (so that equivalent spellings of the same code stay decidable)
        mm = re.search(r'(?:^|::)(min|max)::<usize>$', c) or re.match(r'^<usize as Ord>::(min|max)$', c)
        if mm:
            a, b = args
            return R(z3.If(ULE(a, b), a, b) if mm.group(1) == 'min' else z3.If(ULE(a, b), b, a))
        mm = re.match(r'^(?:core::)?num::<impl usize>::(\w+)$', c)
        if mm and mm.group(1) in ('saturating_sub', 'saturating_add', 'wrapping_add', 'wrapping_sub', 'abs_diff', 'unchecked_add', 'unchecked_sub',
                                  'checked_add', 'checked_sub', 'checked_mul', 'min', 'max', 'div_ceil'):
            op = mm.group(1)
            a, b = args
            MAXV = bv(TWO64 - 1)
            if op == 'saturating_sub':
                return R(z3.If(ULT(a, b), bv(0), a - b))
            if op == 'saturating_add':
                return R(z3.If(ADDOK(a, b), a + b, MAXV))
            if op == 'abs_diff':
                return R(z3.If(ULT(a, b), b - a, a - b))
            if op == 'wrapping_add':
                return R(z3.If(a + b >= TWO64, a + b - TWO64, a + b) if is_int() else a + b)
            if op == 'wrapping_sub':
                return R(z3.If(a < b, a - b + TWO64, a - b) if is_int() else a - b)
            if op in ('unchecked_add', 'unchecked_sub'):
                s.require(st, ADDOK(a, b) if op == 'unchecked_add' else ULE(b, a), op + ' overflows (undefined behaviour)', where)
                return R(a + b if op == 'unchecked_add' else a - b)
            if op in ('min', 'max'):
                return R(z3.If(ULE(a, b), a, b) if op == 'min' else z3.If(ULE(a, b), b, a))
            if op == 'div_ceil':
                if z3.is_false(z3.simplify(b != 0)):
                    raise NotImplementedError('div_ceil by zero')
                q_, r_ = s.div(st, a, b), s.div(st, a, b, rem=True)
                return R(z3.If(r_ == 0, q_, q_ + 1))
            ok = {'checked_add': ADDOK(a, b), 'checked_sub': ULE(b, a), 'checked_mul': MULOK(a, b)}[op]
            val = {'checked_add': a + b, 'checked_sub': a - b, 'checked_mul': a * b}[op]
            outs = []
            if s.feasible(st, ok):
                s1 = st.clone(); s1.pc.append(ok); outs.append((s1, 'ret', Enum('Some', {0: val})))
            if s.feasible(st, z3.Not(ok)):
                s2 = st.clone(); s2.pc.append(z3.Not(ok)); outs.append((s2, 'ret', Enum('None', {})))
            return outs
        mm = re.match(r'^Option::<usize>::(unwrap|expect|unwrap_or|unwrap_unchecked|unwrap_or_default)$', c)
        if mm:
            v = args[0]
            if v.variant == 'Some':
                return R(v.fields[0])
            if mm.group(1) == 'unwrap_or':
                return R(args[1])
            if mm.group(1) == 'unwrap_or_default':
                return R(bv(0))
            if mm.group(1) == 'unwrap_unchecked':
                s.require(st, z3.BoolVal(False), 'unwrap_unchecked on None (undefined behaviour)', where)
            st.events.append('Option::%s on None: panic' % mm.group(1))
            return [(st, 'unwind', None)]
        mm = re.match(r'^(?:core::)?ptr::(?:const|mut)_ptr::<impl \*(?:const|mut) (T|B|MaybeUninit<T>)>::(read|write|add|offset|sub|cast_mut|cast_const|drop_in_place)$', c)
        if mm and isinstance(args[0], (ElemPtr, ArrRef)):
            p = args[0]
            if isinstance(p, ArrRef):
                p = ElemPtr(p.arr, bv(0))
            op = mm.group(2)
            if op == 'read':
                s.ev_move_out(st, p.arr, p.idx, where)
                return R(Elem(p.arr, p.idx))
            if op == 'write':
                s.ev_write(st, p.arr, p.idx, args[1], where)
                return R(UNIT)
            if op in ('add', 'offset'):
                return R(ElemPtr(p.arr, p.idx + args[1], cast=p.cast))
            if op == 'sub':
                return R(ElemPtr(p.arr, p.idx - args[1], cast=p.cast))
            if op in ('cast_mut', 'cast_const'):
                return R(p)
            if op == 'drop_in_place':
                return s.drop_slice(st, Slice(p.arr, p.idx, p.idx + 1), where)
        mr = re.match(r'^(?:core::)?(?:mem::)?(replace|take|swap)::<(usize|bool)>$', c)
        if mr and isinstance(args[0], Ref):
            old = st.get(args[0].cell, args[0].path)
            if mr.group(1) == 'swap':
                other = st.get(args[1].cell, args[1].path)
                st.set(args[0].cell, args[0].path, other)
                st.set(args[1].cell, args[1].path, old)
                return R(UNIT)
            st.set(args[0].cell, args[0].path, args[1] if mr.group(1) == 'replace' else (bv(0) if mr.group(2) == 'usize' else z3.BoolVal(False)))
            return R(old)
        if re.match(r'^<ManuallyDrop<GenericArray<T, N>> as Clone>::clone$', c):      # core: ManuallyDrop<T: Clone>::clone = ManuallyDrop::new((**self).clone())
            a = args[0]
            inner = a if isinstance(a, ArrRef) else st.get(a.cell, a.path)
            if isinstance(inner, Arr):
                inner = ArrRef(inner)
            return s.call(st, '<GenericArray<T, N> as Clone>::clone', [with_prov(inner, 'shared')], where)
        if re.match(r'^(?:core::ptr::)?(?:ptr::)?drop_in_place::<\[MaybeUninit<T>\]>$', c):
            st.events.append('drop_in_place::<[MaybeUninit<T>]> (drops nothing)')
            return R(UNIT)
        mdi = re.match(r'^(?:core::ptr::)?(?:ptr::)?drop_in_place::<(GenericArrayIter|ArrayConsumer|ArrayBuilder|IntrusiveArrayBuilder)<.*>>$', c)
        if mdi and isinstance(args[0], Ref) and ('Drop', mdi.group(1), 'drop') in s.index:
            return s.run_fn(st, s.pick(s.index[('Drop', mdi.group(1), 'drop')]), [args[0]])
        mrd = re.search(r'(^|::)read::<(U|B|A|Acc)>$', c)
        if mrd and isinstance(args[0], Ref):      # bitwise copy of a local that holds a caller value (e.g. an accumulator)
            return R(st.get(args[0].cell, args[0].path))
        mwr = re.search(r'(^|::)write::<(U|Acc)>$', c)
        if mwr and isinstance(args[0], Ref):      # overwrite without dropping the old value
            st.set(args[0].cell, args[0].path, args[1])
            return R(UNIT)
        if re.match(r'^(?:core::)?iter::from_fn::<', c):
            return R({'kind': 'from_fn', 'clo': args[0]})
        mtc = re.match(r'^(?:core::)?(?:mem::)?transmute_copy::<(.*)>$', c)
        if mtc:
            a = args[0]
            if re.fullmatch(r'GenericArray<MaybeUninit<T>, N>, GenericArray<T, N>', mtc.group(1)):      # = ptr::read(.. as *const MaybeUninit<GenericArray<T, N>>).assume_init()
                arr = a.arr if isinstance(a, (ArrRef, ElemPtr)) else st.get(a.cell, a.path)
                s.require(st, z3.Implies(ULT(s.J, arr.len), s.stat(st, arr) == LIVE), 'array with an uninitialised / dead slot released as complete', where)
                return R(arr)
            if re.fullmatch(r'(T|B|U), \1', mtc.group(1)) and isinstance(a, ElemPtr):      # bitwise move-out of one element
                s.ev_move_out(st, a.arr, a.idx, where)
                return R(Elem(a.arr, a.idx))
            raise NotImplementedError('transmute_copy::<%s>' % mtc.group(1))
        mt = re.match(r'^(?:core::)?bool::<impl bool>::(then_some|then)::<', c)
        if mt:
            cond = args[0]
            outs = []
            if s.feasible(st, cond):
                s1 = st.clone(); s1.pc.append(cond)
                if mt.group(1) == 'then_some':
                    outs.append((s1, 'ret', Enum('Some', {0: args[1]})))
                else:
                    cc = s1.new_cell(args[1])
                    outs += [(s2, k, Enum('Some', {0: v}) if k == 'ret' else None) for (s2, k, v) in s.call_closure2(s1, cc, [], where)]
            if s.feasible(st, z3.Not(cond)):
                s0 = st.clone(); s0.pc.append(z3.Not(cond))
                outs.append((s0, 'ret', Enum('None', {})))      # then_some: its (already evaluated) argument is dropped here
            return outs
        md = re.match(r'^(?:core::)?(?:mem::)?drop::<(.*)>$', c)
        if md:      # mem::drop(value): the type-directed drop glue of the value, here and now
            tmp = st.new_cell(args[0])
            return [(s1, 'ret' if k == 'ret' else 'unwind', UNIT if k == 'ret' else None) for (s1, k) in s.drop_value(st, {'_tmp': tmp}, '_tmp', md.group(1), where)]
        ml = re.match(r'^(?:core::slice::)?<impl \[T\]>::(first|last)(_mut)?$', c)
        if ml:
            sl = args[0]
            if isinstance(sl, ArrRef):
                sl = Slice(sl.arr, bv(0), sl.arr.len)
            if sl.stride is not None:
                raise NotImplementedError('first/last of a slice of chunks')
            outs = []
            if s.feasible(st, sl.start == sl.end):
                s1 = st.clone(); s1.pc.append(sl.start == sl.end); outs.append((s1, 'ret', Enum('None', {})))
            if s.feasible(st, ULT(sl.start, sl.end)):
                s2 = st.clone(); s2.pc.append(ULT(sl.start, sl.end))
                outs.append((s2, 'ret', Enum('Some', {0: ElemPtr(sl.arr, sl.start if ml.group(1) == 'first' else sl.end - 1)})))
            return outs
        mres = re.match(r'^Result::<.*>::(map|map_err|ok|err|is_ok|is_err|and_then)(::<.*)?$', c)
        if mres and isinstance(args[0], Enum) and args[0].variant in ('Ok', 'Err'):
            op, r0 = mres.group(1), args[0]
            isok = r0.variant == 'Ok'
            if op in ('is_ok', 'is_err'):
                return R(z3.BoolVal(isok == (op == 'is_ok')))
            if op == 'ok':
                return R(Enum('Some', {0: r0.fields[0]}) if isok else Enum('None', {}))
            if op == 'err':
                return R(Enum('None', {}) if isok else Enum('Some', {0: r0.fields[0]}))
            if (op in ('map', 'and_then')) != isok:
                return R(r0)
            cc = st.new_cell(args[1])
            outs = []
            for (s1, k, v) in s.call_closure2(st, cc, [r0.fields[0]], where):
                if k != 'ret':
                    outs.append((s1, k, None))
                elif op == 'and_then':
                    outs.append((s1, 'ret', v))
                else:
                    outs.append((s1, 'ret', Enum('Ok' if op == 'map' else 'Err', {0: v})))
            return outs
        mres = re.match(r'^Result::<.*>::(unwrap_or_else|unwrap_or|map_or_else)(::<.*)?$', c)
        if mres and isinstance(args[0], Enum) and args[0].variant in ('Ok', 'Err'):
            op, r0 = mres.group(1), args[0]
            if op == 'unwrap_or':
                return R(r0.fields[0] if r0.variant == 'Ok' else args[1])
            if op == 'unwrap_or_else':
                if r0.variant == 'Ok':
                    return R(r0.fields[0])
                return s.call_closure2(st, st.new_cell(args[1]), [r0.fields[0]], where)
            return s.call_closure2(st, st.new_cell(args[2] if r0.variant == 'Ok' else args[1]), [r0.fields[0]], where)      # map_or_else(default, f)
        mo = re.match(r'^Option::<.*>::(map|is_some_and|is_none_or|filter|map_or|and_then|unwrap_or_else|ok_or|unwrap_or)(::<.*)?$', c)
        if mo and isinstance(args[0], Enum) and not (mo.group(1) == 'unwrap_or' and 'usize' in c):
            op, o = mo.group(1), args[0]
            none = o.variant == 'None'
            if op == 'ok_or':
                return R(Enum('Err', {0: args[1]}) if none else Enum('Ok', {0: o.fields[0]}))
            if op == 'unwrap_or':
                return R(args[1] if none else o.fields[0])
            if none:
                if op in ('map', 'filter', 'and_then'):
                    return R(Enum('None', {}))
                if op == 'is_some_and':
                    return R(z3.BoolVal(False))
                if op == 'is_none_or':
                    return R(z3.BoolVal(True))
                if op == 'map_or':
                    return R(args[1])
                cc = st.new_cell(args[1])      # unwrap_or_else
                return s.call_closure2(st, cc, [], where)
            val = o.fields[0]
            if op == 'unwrap_or_else':
                return R(val)
            cc = st.new_cell(args[2] if op == 'map_or' else args[1])
            arg = Ref(st.new_cell(val), ()) if op == 'filter' else val
            outs = []
            for (s1, k, v) in s.call_closure2(st, cc, [arg], where):
                if k != 'ret':
                    outs.append((s1, k, None))
                elif op == 'map':
                    outs.append((s1, 'ret', Enum('Some', {0: v})))
                elif op in ('is_some_and', 'is_none_or', 'map_or', 'and_then'):
                    outs.append((s1, 'ret', v))
                else:      # filter: keep the value iff the predicate holds
                    if s.feasible(s1, v):
                        sa = s1.clone(); sa.pc.append(v); outs.append((sa, 'ret', Enum('Some', {0: val})))
                    if s.feasible(s1, z3.Not(v)):
                        sb = s1.clone(); sb.pc.append(z3.Not(v)); outs.append((sb, 'ret', Enum('None', {})))
            return outs
        msp = re.match(r'^(?:core::slice::)?<impl \[.*\]>::split_at(_mut)?(_unchecked)?$', c)
        if msp:
            sl, mid = args
            if isinstance(sl, ArrRef):
                sl = Slice(sl.arr, bv(0), sl.arr.len)
            if sl.stride is not None:
                raise NotImplementedError('split_at of a slice of chunks')
            ln = sl.end - sl.start
            parts = {0: with_prov(Slice(sl.arr, sl.start, sl.start + mid), sl.prov), 1: with_prov(Slice(sl.arr, sl.start + mid, sl.end), sl.prov)}
            if msp.group(2):
                s.require(st, ULE(mid, ln), 'split_at_unchecked beyond the end of the slice (undefined behaviour)', where)
                return R(parts)
            outs = []
            if s.feasible(st, ULE(mid, ln)):
                s1 = st.clone(); s1.pc.append(ULE(mid, ln)); outs.append((s1, 'ret', parts))
            if s.feasible(st, UGT(mid, ln)):
                s2 = st.clone(); s2.pc.append(UGT(mid, ln)); s2.events.append('split_at: mid > len: panic'); outs.append((s2, 'unwind', None))
            return outs
        # ---- ManuallyDrop / MaybeUninit / mem
        if re.match(r'ManuallyDrop::<.*>::new', c):
            return R(args[0])
        if re.match(r'ManuallyDrop::<.*>::into_inner', c):
            return R(args[0])
        if 'ManuallyDrop' in c and re.search(r'::deref(_mut)?$', c):
            a = args[0]
            if isinstance(a, ArrRef):
                return R(a)
            v = st.get(a.cell, a.path)
            return R(ArrRef(v) if isinstance(v, Arr) else a)
        if re.search(r'(^|::)min::<usize>', c):
            return R(z3.If(ULE(args[0], args[1]), args[0], args[1]))
        if re.search(r'from_raw_parts(_mut)?::<', c):
            p, n = args
            if isinstance(p, ArrRef):
                p = ElemPtr(p.arr, bv(0))
            if isinstance(p, BlockPtr):      # the start of a heap block viewed as a pointer to its first element
                p = ElemPtr(p.block.arr, bv(0))
            if (getattr(p, 'cast', None) and 'GenericArray<' in p.cast) or re.search(r"from_raw_parts(_mut)?::<'_, (\[T; \w+\]|GenericArray<T, N>)>", c):
                # slice of chunks: n chunks of N elements each starting at element p.idx
                s.require(st, z3.And(MULOK(n, s.N), ADDOK(p.idx, n * s.N),
                                     ULE(p.idx + n * s.N, p.arr.len)), 'from_raw_parts: chunk slice extends beyond the source', where)
                return R(Slice(p.arr, p.idx, p.idx + n * s.N, stride=s.N))
            s.require(st, z3.And(ADDOK(p.idx, n), ULE(p.idx + n, p.arr.len)),
                      'from_raw_parts: slice extends beyond the source', where)
            return R(Slice(p.arr, p.idx, p.idx + n))
        if re.search(r'slice_from_raw_parts(_mut)?::<', c):
            p, n = args
            if isinstance(p, (BlockPtr, BoxVal)):
                return R({'rawslice': p, 'len': n})
            return R(Slice(p.arr, p.idx, p.idx + n))
        m = re.search(r'get_unchecked(_mut)?::<(Range|RangeTo|RangeFrom)<usize>>', c)
        if m:
            sl, r = args
            if isinstance(sl, ArrRef):
                sl = Slice(sl.arr, bv(0), sl.arr.len)
            ln = sl.end - sl.start
            a, b = {'Range': lambda: (r[0], r[1]), 'RangeTo': lambda: (bv(0), r[0]), 'RangeFrom': lambda: (r[0], ln)}[m.group(2)]()
            s.require(st, z3.And(ULE(a, b), ULE(b, ln)), 'get_unchecked(range) out of bounds', where)
            return R(Slice(sl.arr, sl.start + a, sl.start + b))
        if re.search(r'get_unchecked(_mut)?::<usize>', c):
            sl, i = args
            if isinstance(sl, ArrRef):
                sl = Slice(sl.arr, bv(0), sl.arr.len)
            s.require(st, ULT(i, sl.end - sl.start), 'get_unchecked(index) out of bounds', where)
            return R(ElemPtr(sl.arr, sl.start + i))
        if re.match(r'(ptr::)?drop_in_place::<\[[A-Z]\w*\]>', c):
            return s.drop_slice(st, args[0], where)
        if re.match(r'(ptr::)?drop_in_place::<T>$', c) and isinstance(args[0], ElemPtr):
            return s.drop_slice(st, Slice(args[0].arr, args[0].idx, args[0].idx + 1), where)
        if re.search(r'(^|::)read(_unaligned)?::<(T|B)>$', c) or (re.match(r'^MaybeUninit::<T>::assume_init_read$', c) and isinstance(args[0], (ElemPtr, Elem))):
            p = args[0]
            if isinstance(p, ArrRef) and re.search(r'(^|::)read(_unaligned)?::<B>$', c):
                # `ptr::read(&a as *const A as *const B)` on a whole array (const_transmute without the union): a move of the whole object
                st.calls += 1
                new = Arr('Moved%d' % st.calls, p.arr.len)
                st.status[new] = s.stat(st, p.arr)
                st.status[p.arr] = UNINIT
                st.events.append('ptr::read of the whole array %s as the target type (moved into %s)' % (p.arr.name, new.name))
                return R(new)
            s.ev_move_out(st, p.arr, p.idx, where)
            return R(Elem(p.arr, p.idx))
        m = re.search(r'(^|::)read::<(MaybeUninit|ManuallyDrop)<GenericArray<', c)
        if m:
            a = args[0]
            arr = a.arr if isinstance(a, (ArrRef, ElemPtr)) else st.get(a.cell, a.path)
            if m.group(2) == 'MaybeUninit':
                return R(arr)                     # the same object, reinterpreted
            st.calls += 1                         # bitwise copy: a new object that owns nothing yet
            return R(Arr('Copy%d' % st.calls, arr.len))
        if re.search(r'(^|::)read::<GenericArray<[A-Z]\w*, N>>$', c):
            # bitwise move of a whole array out of a place that keeps its bits (ManuallyDrop / about to be forgotten): the result IS the same
            # object as far as ownership goes - if both the source's owner and the new owner drop it, the ledger reports the double drop
            a = args[0]
            arr = a.arr if isinstance(a, (ArrRef, ElemPtr)) else st.get(a.cell, a.path)
            if isinstance(arr, Arr):
                # a move: the copy owns whatever the source's slots owned, the source's slots are logically uninitialised from here on
                st.calls += 1
                new = Arr('Moved%d' % st.calls, arr.len)
                st.status[new] = s.stat(st, arr)
                st.status[arr] = UNINIT
                st.events.append('ptr::read of the whole array %s (moved into %s)' % (arr.name, new.name))
                return R(new)
            raise NotImplementedError('block read ' + c)
        mrd = re.search(r'(^|::)read::<(\w+)<', c)
        if mrd and isinstance(args[0], Ref) and s.struct_fields(mrd.group(2)) is not None and mrd.group(2) not in ('GenericArray',):
            # bitwise copy of one of the crate's (guard) structs out of a place that keeps its bits: the copy has the same fields (same
            # references, same position); both copies may be used - the ledger reports it if both release what they guard
            import copy as _copy
            v = st.get(args[0].cell, args[0].path)
            if isinstance(v, dict):
                st.events.append('ptr::read of a %s (bitwise copy of the guard)' % mrd.group(2))
                return R(_copy.copy(v))
        if re.search(r'(^|::)read::<GenericArray<', c):
            raise NotImplementedError('block read ' + c)
        if re.search(r'(^|::)copy(_nonoverlapping)?::<T>$', c) and len(args) == 3 and isinstance(args[1], ElemPtr) and z3.is_expr(args[2]) and z3.is_true(z3.simplify(args[2] == bv(1))):
            # one element copied bit by bit into a slot: from a local that holds the value (a move: the local is in ManuallyDrop / forgotten by
            # the caller, otherwise the ledger sees the second drop), or from another slot
            src = args[0]
            if isinstance(src, Ref):
                v = st.get(src.cell, src.path)
                while isinstance(v, dict) and set(v.keys()) == {0}:
                    v = v[0]
                if isinstance(v, Elem):
                    s.ev_write(st, args[1].arr, args[1].idx, v, where)
                    return R(UNIT)
            if isinstance(src, ElemPtr):
                s.ev_move_out(st, src.arr, src.idx, where)
                s.ev_write(st, args[1].arr, args[1].idx, Elem(src.arr, src.idx), where)
                return R(UNIT)
            raise NotImplementedError('copy_nonoverlapping of one element from ' + type(src).__name__)
        if re.match(r'^MaybeUninit::<T>::assume_init_drop$', c) and isinstance(args[0], ElemPtr):
            return s.drop_slice(st, Slice(args[0].arr, args[0].idx, args[0].idx + 1), where)
        if re.search(r'(^|::)write::<[A-Z]\w*>$', c) and isinstance(args[0], ElemPtr):      # ptr::write of one element (T, or the mapped type through a cast slot pointer)
            p, v = args
            s.ev_write(st, p.arr, p.idx, v, where)
            return R(UNIT)
        if re.match(r'<T as Clone>::clone', c):
            s.order_check(st, [args[0]] if isinstance(args[0], (Elem, ElemPtr)) else [], where, 'clone')
            st.calls += 1
            k = st.calls
            st.events.append('T::clone #%d' % k)
            s2 = st.clone()
            s2.events.append('  ^T::clone panicked (#%d)' % k)
            s.unwind_edges += 1
            vid = s.next_vid(st)
            st.status[s.V] = z3.If(s.J == vid, HELD, s.stat(st, s.V))
            return [(st, 'ret', Elem(s.V, vid)), (s2, 'unwind', None)]
        if re.match(r'MaybeUninit::<GenericArray<MaybeUninit<T>, N>>::uninit', c) or re.match(r'MaybeUninit::<GenericArray<T, N>>::uninit', c):
            st.calls += 1
            return R(Arr('Out%d' % st.calls, s.N))
        if re.match(r'MaybeUninit::<GenericArray<MaybeUninit<T>, N>>::assume_init', c):
            return R(args[0])
        if re.match(r'MaybeUninit::<GenericArray<T, N>>::assume_init', c):
            a = args[0]
            s.require(st, z3.Implies(ULT(s.J, a.len), s.stat(st, a) == LIVE),
                      'array with an uninitialised / dead slot released as complete', where)
            return R(a)
        if re.match(r'MaybeUninit::<T>::write', c):
            p, v = args
            s.ev_write(st, p.arr, p.idx, v, where)
            return R(p)
        if re.search(r'(^|::)forget::<', c):
            return R(UNIT)
        if re.search(r'size_of::<T>', c):
            return R(s.S)
        if re.search(r'size_of_val::<\[', c):
            a = args[0]
            if isinstance(a, ArrRef):
                a = Slice(a.arr, bv(0), a.arr.len)
            return R((a.end - a.start) * s.S)      # bytes = elements * size_of::<T>()
        ms = re.search(r'(?:^|::)(?:size|align)_of::<([A-SU-Z]\w*)>$', c)
        if ms and 'align_of' in c:      # alignment of another type parameter: a symbolic non-zero value
            key = 'align_of_' + ms.group(1)
            if key not in s.consts:
                s.consts[key] = mkint(key)
            st.pc.append(s.consts[key] != bv(0))
            return R(s.consts[key])
        if re.search(r'(?:^|::)align_of::<T>$', c):
            if 'align_of_T' not in s.consts:
                s.consts['align_of_T'] = mkint('align_of_T')
            st.pc.append(s.consts['align_of_T'] != bv(0))
            return R(s.consts['align_of_T'])
        if ms:
            if 'size_of_' + ms.group(1) not in s.consts:
                s.consts['size_of_' + ms.group(1)] = mkint('size_of_' + ms.group(1))
            return R(s.consts['size_of_' + ms.group(1)])
        if re.search(r'size_of::<GenericArray<T, N>>', c) or re.search(r'size_of::<Self>', c):
            return R(s.SZ)
        if re.search(r'needs_drop::<(\w+)>', c):
            ty = re.search(r'needs_drop::<(\w+)>', c).group(1)
            if ty not in s.needs_drop:
                s.needs_drop[ty] = z3.Bool('needs_drop_' + ty)
            return R(s.needs_drop[ty])
        # ---- pointers
        if re.search(r'::as_(mut_)?ptr$', c) and ('<impl [' in c or 'GenericArray' in c or 'MaybeUninit' in c):
            a = args[0]
            if isinstance(a, Slice):
                return R(ElemPtr(a.arr, a.start))
            if isinstance(a, ArrRef):
                return R(ElemPtr(a.arr, bv(0)))
            if isinstance(a, Ref):
                v = st.get(a.cell, a.path)
                if isinstance(v, BoxVal):
                    return R(v.ptr)
            return R(a)
        if re.search(r'<impl \[.*\]>::as_(mut_)?ptr_range$', c):
            a = args[0]
            if isinstance(a, ArrRef):
                a = Slice(a.arr, bv(0), a.arr.len)
            if a.stride is not None:
                raise NotImplementedError('as_ptr_range of a slice of chunks')
            return R({0: ElemPtr(a.arr, a.start), 1: ElemPtr(a.arr, a.end)})
        mo = re.search(r'::(offset_from|offset_from_unsigned|sub_ptr|byte_offset_from)$', c)
        if mo and isinstance(args[0], ElemPtr) and isinstance(args[1], ElemPtr):
            pa, pb = args
            if pa.arr is not pb.arr or pa.cast or pb.cast:
                raise NotImplementedError('offset_from between different objects')
            if mo.group(1) == 'byte_offset_from':
                return R((pa.idx - pb.idx) * s.S)
            outs = []
            if s.feasible(st, s.S == 0):      # core: `assert!(0 < pointee_size)` - panics for zero-sized element types
                s2 = st.clone(); s2.pc.append(s.S == 0); s2.events.append('%s on a zero-sized element type: panic' % mo.group(1)); outs.append((s2, 'unwind', None))
            if s.feasible(st, s.S != 0):
                s1 = st.clone(); s1.pc.append(s.S != 0)
                if mo.group(1) != 'offset_from':
                    s.require(s1, ULE(pb.idx, pa.idx), mo.group(1) + ': first pointer is below the second (undefined behaviour)', where)
                outs.append((s1, 'ret', pa.idx - pb.idx))
            return outs
        if re.search(r'::(add|offset)$', c) and ('*const' in c or '*mut' in c or 'ptr::' in c):
            p, k = args
            if isinstance(p, BlockPtr) and re.search(r'<impl \*(const|mut) (T|MaybeUninit<T>)>::(add|offset)$', c):
                p = ElemPtr(p.block.arr, bv(0))      # the block's start as a pointer to its first element (`block.cast::<T>()`)
            if isinstance(p, Slice) and p.stride is None:      # a slice pointer cast to an element pointer (NonNull::<[T]>::cast::<T>())
                p = with_prov(ElemPtr(p.arr, p.start), p.prov)
            if isinstance(p, ArrRef):
                p = with_prov(ElemPtr(p.arr, bv(0)), p.prov)
            return R(ElemPtr(p.arr, p.idx + k, cast=p.cast))
        if re.search(r'<impl \*(const|mut) \[T\]>::(len|is_empty)$', c):
            a = args[0].ptr if isinstance(args[0], BoxVal) else args[0]
            if isinstance(a, ArrRef):
                a = Slice(a.arr, bv(0), a.arr.len)
            n_ = s.slice_len(st, a)
            return R(n_ if c.endswith('len') else n_ == 0)
        if re.search(r'::len$', c) and '<impl [' in c:
            a = args[0]
            if isinstance(a, ArrRef):
                return R(a.arr.len)
            return R(s.slice_len(st, a))
        if re.search(r'<impl \[T\]>::swap$', c):
            sl, i, j = args
            if isinstance(sl, ArrRef):
                sl = Slice(sl.arr, bv(0), sl.arr.len)
            ln = sl.end - sl.start
            inb = z3.And(ULT(i, ln), ULT(j, ln))
            outs = []
            if s.feasible(st, inb):
                s1 = st.clone()
                s1.pc.append(inb)
                s1.events.append('swap [%s] <-> [%s]' % (z3.simplify(i), z3.simplify(j)))
                outs.append((s1, 'ret', UNIT))      # both elements stay live, only their positions change (the ledger tracks states, not values)
            if s.feasible(st, z3.Not(inb)):
                s2 = st.clone()
                s2.pc.append(z3.Not(inb))
                s2.events.append('slice::swap index out of bounds: panic')
                outs.append((s2, 'unwind', None))
            return outs
        if re.search(r'::is_empty$', c) and '<impl [' in c:
            a = args[0]
            return R(a.end == a.start)
        if re.match(r'NonNull::<.*>::dangling', c):
            return R(BlockPtr(Block('dangling', Arr('Zst', s.N))))
        mcast = re.search(r'::cast::<(.*)>$', c)
        if mcast and isinstance(args[0], (ElemPtr, ArrRef)) and 'GenericArray<' in mcast.group(1) and re.search(r'<impl \*(const|mut) (T|MaybeUninit<T>)>::cast::<', c):      # same as `ptr as *const GenericArray<..>`
            p0 = args[0] if isinstance(args[0], ElemPtr) else ElemPtr(args[0].arr, bv(0))
            return R(with_prov(ElemPtr(p0.arr, p0.idx, cast='*const ' + mcast.group(1)), args[0].prov))
        if mcast and isinstance(args[0], ElemPtr) and args[0].cast and re.fullmatch(r'(T|MaybeUninit<T>)', mcast.group(1)):
            return R(with_prov(ElemPtr(args[0].arr, args[0].idx), args[0].prov))
        if re.match(r'NonNull::<.*>::as_ptr', c) or mcast:
            return R(args[0])
        # ---- heap
        if re.match(r'Box::<GenericArray<T, N>>::new_uninit', c):
            st.calls += 1
            blk = Block('H%d' % st.calls, Arr('Heap%d' % st.calls, s.N))
            st.blocks[blk] = 'boxed'
            st.events.append('Box::new_uninit -> %s' % blk.name)
            return R(BoxVal(BlockPtr(blk), init=False))
        if re.match(r'Box::<GenericArray<.+, N>>::new$', c) and isinstance(args[0], Arr):
            # Box::new(array): a fresh block that owns whatever the argument's slots owned (a move of the whole object)
            st.calls += 1
            blk = Block('H%d' % st.calls, Arr('Heap%d' % st.calls, args[0].len))
            st.blocks[blk] = 'boxed'
            st.status[blk.arr] = s.stat(st, args[0])
            st.status[args[0]] = UNINIT
            st.events.append('Box::new(%s) -> %s' % (args[0].name, blk.name))
            return R(BoxVal(BlockPtr(blk), init=True))
        if re.match(r'Box::<MaybeUninit<GenericArray<T, N>>>::assume_init', c):
            b = args[0]
            a = b.ptr.block.arr
            s.require(st, z3.Implies(ULT(s.J, a.len), s.stat(st, a) == LIVE), 'boxed array with an uninitialised slot released as complete', where)
            return R(BoxVal(b.ptr, init=True))
        if re.match(r'MaybeUninit::<GenericArray<T, N>>::as_mut_ptr', c):
            a = args[0]
            if isinstance(a, ArrRef):
                return R(a)
            return R(a)
        if c.startswith('Layout::new::<GenericArray<') or c.startswith('core::alloc::Layout::new::<GenericArray<'):
            return R({'size': s.SZ})
        if re.search(r'alloc::alloc::alloc$', c) or c == 'alloc::alloc::alloc':
            s.require(st, args[0]['size'] != 0, 'zero-size allocation request', where)
            st.calls += 1
            blk = Block('H%d' % st.calls, Arr('Heap%d' % st.calls, s.N))
            st.blocks[blk] = 'allocated'
            st.events.append('alloc %s' % blk.name)
            s2 = st.clone()
            del s2.blocks[blk]
            s2.events[-1] = 'alloc -> null'
            return [(st, 'ret', BlockPtr(blk)), (s2, 'ret', NullPtr())]
        if (re.match(r'NonNull::<.*>::(new_unchecked|as_ptr|cast::<.*>)$', c) or re.match(r'<NonNull<.*> as From<&(mut )?.*>>::from$', c)) and isinstance(args[0], (BlockPtr, _Ptr)):
            return R(args[0])      # NonNull is a transparent wrapper around the raw pointer
        if re.match(r'Box::<.*>::(into_raw|leak)', c):      # leak: the same hand-over of the block to a plain pointer / reference
            b = args[0]
            if isinstance(b, BoxVal) and isinstance(b.ptr, BlockPtr) and b.ptr.block in st.blocks:
                st.blocks[b.ptr.block] = 'allocated'      # owned by a raw pointer now: nobody frees it unless it is re-boxed
                st.events.append('Box::into_raw(%s)' % b.ptr.block.name)
                return R(b.ptr)
            if isinstance(b, BoxVal) and isinstance(b.ptr, Slice) and getattr(b.ptr, 'block', None) in st.blocks:
                st.blocks[b.ptr.block] = 'allocated'
                st.events.append('Box::<[T]>::into_raw(%s)' % b.ptr.block.name)
            return R(b.ptr if isinstance(b, BoxVal) else b)
        if re.match(r'Box::<.*>::from_raw', c):
            p = args[0]
            if isinstance(p, ElemPtr) and 'GenericArray<T, N>' in c and p.arr in st.notes.get('cap', {}):
                # a pointer into a Vec's buffer re-boxed as Box<GenericArray<T, N>>
                blk_ = next((b_ for b_ in st.blocks if b_.arr is p.arr), None)
                if blk_ is not None:
                    if getattr(p, 'epoch', None) is not None:
                        s.require(st, z3.BoolVal(p.epoch == st.notes.get('epoch', {}).get(p.arr, 0)), 'pointer into a Vec buffer used after a call that may have moved the buffer (stale pointer)', where)
                    s.require(st, p.idx == 0, 'Box::from_raw on a pointer that is not the start of the block', where)
                    s.require(st, z3.Or(st.notes['cap'][p.arr] == s.N, s.S == 0), 'heap block re-boxed under a layout (N elements) that differs from the one it was allocated with', where)
                    st.blocks[blk_] = 'boxed'
                    return R(BoxVal(BlockPtr(blk_), init=True))
            if isinstance(p, Slice) and getattr(p, 'block', None) is not None and 'GenericArray<T, N>' in c:
                # re-boxing a slice allocation as Box<GenericArray<T, N>>: it will be freed with the layout of N elements
                cap = st.notes.get('cap', {}).get(p.arr)
                if cap is not None:
                    s.require(st, z3.Or(cap == s.N, s.S == 0), 'heap block re-boxed under a layout (N elements) that differs from the one it was allocated with', where)
                if p.block in st.blocks:
                    st.blocks[p.block] = 'boxed'
                return R(BoxVal(BlockPtr(p.block), init=True))
            if isinstance(p, BlockPtr) and p.block in st.blocks:
                s.require(st, z3.BoolVal(st.blocks[p.block] != 'freed'), 'Box::from_raw on a heap block that was already freed (double free)', where)
                st.blocks[p.block] = 'boxed'
            return R(BoxVal(p, init=not c.startswith(('Box::<MaybeUninit<', 'Box::<GenericArray<MaybeUninit<'))))
        # ---- Vec<T> / Box<[T]> (std, by contract): {'kind': 'vec', 'arr': buffer (capacity elements), 'len', 'blk'}; st.notes['cap'][arr] = capacity
        if re.match(r'Vec::<T>::with_capacity$', c):
            st.calls += 1
            arr = Arr('Heap%d' % st.calls, args[0])
            blk = Block('V%d' % st.calls, arr)
            st.blocks[blk] = 'vec'
            st.notes = dict(st.notes)
            st.notes['cap'] = dict(st.notes.get('cap', {})); st.notes['cap'][arr] = args[0]
            st.events.append('Vec::with_capacity -> %s' % blk.name)
            return R({'kind': 'vec', 'arr': arr, 'len': bv(0), 'blk': blk})
        if re.match(r'Vec::<T>::(len|capacity)$', c):
            v = st.get(args[0].cell, args[0].path)
            return R(v['len'] if c.endswith('len') else st.notes['cap'][v['arr']])
        if re.match(r'Vec::<T>::set_len$', c):
            v = st.get(args[0].cell, args[0].path)
            s.require(st, ULE(args[1], st.notes['cap'][v['arr']]), 'Vec::set_len beyond the capacity', where)
            s.require(st, z3.Implies(z3.And(ULT(s.J, args[1]), ULT(s.J, v['arr'].len)), s.stat(st, v['arr']) == LIVE), 'Vec::set_len over a slot that is not initialised', where)
            v['len'] = args[1]
            st.events.append('Vec::set_len(%s)' % z3.simplify(args[1]))
            return R(UNIT)
        if re.match(r'Vec::<T>::spare_capacity_mut$', c):
            v = st.get(args[0].cell, args[0].path)
            return R(with_prov(Slice(v['arr'], v['len'], st.notes['cap'][v['arr']]), 'mut'))
        if re.match(r'Vec::<T>::as_(mut_)?ptr$', c):
            v = st.get(args[0].cell, args[0].path)
            pv = ElemPtr(v['arr'], bv(0))
            pv.epoch = st.notes.get('epoch', {}).get(v['arr'], 0)      # the buffer may move at the next call that changes the capacity
            return R(pv)
        if re.match(r'Vec::<T>::shrink_to_fit$', c):
            v = st.get(args[0].cell, args[0].path)
            st.notes = dict(st.notes)
            st.notes['cap'] = dict(st.notes.get('cap', {})); st.notes['cap'][v['arr']] = v['len']
            st.notes['epoch'] = dict(st.notes.get('epoch', {})); st.notes['epoch'][v['arr']] = st.notes['epoch'].get(v['arr'], 0) + 1
            st.events.append('Vec::shrink_to_fit (capacity := len; the buffer may have moved)')
            return R(UNIT)
        if re.match(r'^<Vec<T> as Extend<T>>::extend::<', c):
            # std: for item in iter { reserve if full; write at len; len += 1 } - the length is published per item, so an unwinding Vec owns what was pushed
            vref, it = args
            clo = {'__builtin__': 'vec_push', 'vec': vref}
            return [(s1, k, UNIT if k == 'ret' else None) for (s1, k, _) in s.for_each(st, it, clo, where)]
        if re.match(r'Vec::<T>::into_boxed_slice$', c):
            v = args[0]
            st.notes = dict(st.notes)
            st.notes['cap'] = dict(st.notes.get('cap', {})); st.notes['cap'][v['arr']] = v['len']      # shrink_to_fit: the block now has room for len elements exactly
            st.blocks[v['blk']] = 'boxed'
            st.events.append('Vec::into_boxed_slice (capacity := len)')
            sl = Slice(v['arr'], bv(0), v['len'])
            sl.block = v['blk']
            return R(BoxVal(sl, init=True))
        if re.match(r'^Result::<Box<GenericArray<T, N>>, LengthError>::unwrap$', c):
            r = args[0]
            if r.variant == 'Ok':
                return R(r.fields[0])
            st.events.append('unwrap on Err: panic')
            return [(st, 'unwind', None)]
        # ---- iterator adaptors over slices / sources
        if re.search(r'<impl \[.*\]>::iter(_mut)?$', c):
            sl = args[0]
            if isinstance(sl, ArrRef):
                sl = Slice(sl.arr, bv(0), sl.arr.len)
            return R({'kind': 'slice', 'arr': sl.arr, 'pos': sl.start, 'end': sl.end})
        if re.match(r'^(?:core::slice::)?Iter(Mut)?::<.*>::(as_slice|into_slice|as_mut_slice)$', c):
            it = args[0]
            if isinstance(it, Ref):
                it = st.get(it.cell, it.path)
            if not (isinstance(it, dict) and it.get('kind') in ('slice', 'rslice')):
                raise NotImplementedError('as_slice of a non-slice iterator')
            return R(Slice(it['arr'], it['pos'], it['end']))
        args = [s.as_iter(a) for a in args] if re.search(r' as (Iterator|IntoIterator|DoubleEndedIterator)>::', c) else args
        # an iterator struct *defined in the crate* flowing into one of core's adaptors / consumers: its own `next` (and `size_hint`) bodies are run
        mci = re.match(r"^<(?:&mut |&)?(?:\w+::)*(\w+)<.*> as (?:Iterator|IntoIterator)>::(map|zip|enumerate|take|cloned|copied|into_iter|for_each|fold|count|try_for_each|size_hint)\b", c)
        if mci and ('Iterator', mci.group(1), 'next') in s.index and args:
            a0 = args[0]
            tgt = st.get(a0.cell, a0.path) if isinstance(a0, Ref) else a0
            if not (isinstance(tgt, dict) and 'kind' in tgt):
                args = [{'kind': 'crateit', 'ty': mci.group(1), 'it': a0}] + list(args[1:])
        if re.search(r' as Iterator>::try_for_each::<', c):
            tail = c[c.index('try_for_each::<'):]
            okv = 'Some' if re.search(r'Option<\(\)>>$', tail) else 'Continue' if re.search(r'ControlFlow<[^<>]*>>$', tail) else 'Ok'
            return s.try_for_each(st, args[0], args[1], where, okv)
        if re.search(r' as Iterator>::(cloned|copied)(::<.*>)?$', c):
            return R({'kind': 'cloned', 'inner': args[0]})
        if re.search(r' as Iterator>::by_ref$', c):
            return R(args[0])
        if re.search(r' as Iterator>::rev$', c):
            it = dict(args[0])
            if it.get('kind') not in ('slice', 'rslice'):
                raise NotImplementedError('rev of a non-slice iterator')
            it['kind'] = 'rslice' if it['kind'] == 'slice' else 'slice'
            return R(it)
        if re.search(r' as Iterator>::map::<', c):
            return R({'kind': 'map', 'inner': args[0], 'clo': args[1]})
        if re.search(r' as Iterator>::zip::<', c):
            b = args[1]
            if isinstance(b, Slice):
                b = {'kind': 'slice', 'arr': b.arr, 'pos': b.start, 'end': b.end}
            elif isinstance(b, ArrRef):
                b = {'kind': 'slice', 'arr': b.arr, 'pos': bv(0), 'end': b.arr.len}
            return R({'kind': 'zip', 'a': args[0], 'b': b})
        if re.search(r' as Iterator>::enumerate$', c):
            return R({'kind': 'enumerate', 'inner': args[0], 'count': bv(0)})
        if re.search(r' as Iterator>::take$', c):
            return R({'kind': 'take', 'inner': args[0], 'n': args[1]})
        if re.search(r' as IntoIterator>::into_iter$', c):
            a = args[0]
            if re.match(r'^<&(mut )?\[', c) and isinstance(a, (Slice, ArrRef)):      # `for x in slice`: core's impl IntoIterator for &[T] / &mut [T] is slice.iter() / iter_mut()
                if isinstance(a, ArrRef):
                    a = Slice(a.arr, bv(0), a.arr.len)
                return R({'kind': 'slice', 'arr': a.arr, 'pos': a.start, 'end': a.end})
            return R(a)
        if re.search(r' as Iterator>::size_hint$', c):
            r = args[0]
            if isinstance(r, Ref):
                rr = st.get(r.cell, r.path)
                if isinstance(rr, dict) and rr.get('kind') == 'source' and rr.get('hint_may_panic', True):
                    s2 = st.clone()
                    s2.events.append('source.size_hint() panicked')
                    s.unwind_edges += 1
                    return [(st, 'ret', s.size_hint(st, r)), (s2, 'unwind', None)]
            return R(s.size_hint(st, r))
        if re.search(r' as Iterator>::count$', c):
            ic = st.new_cell(args[0])
            outs, work = [], [(st, 0)]
            while work:
                s0, k = work.pop()
                for (s1, kk, v) in s.iter_next(s0, ic, (), where):
                    if kk == 'none':
                        outs.append((s1, 'ret', bv(k)))
                    elif kk == 'unwind':
                        outs.append((s1, 'unwind', None))
                    else:
                        if k >= s.loop_cap:
                            raise Inconclusive('unwinding assertion: more than %d iterations feasible at %s' % (s.loop_cap, where))
                        if isinstance(v, Elem):
                            s.ev_drop_elem(s1, v, where)
                        work.append((s1, k + 1))
            return outs
        if re.search(r' as Iterator>::for_each::<', c):
            return s.for_each(st, args[0], args[1], where)
        if re.search(r' as Iterator>::fold::<', c):
            return s.for_each(st, args[0], args[2], where, fold_init=args[1])
        if re.search(r' as DoubleEndedIterator>::rfold::<', c):
            it = dict(args[0])
            it['kind'] = 'rslice'
            return s.for_each(st, it, args[2], where, fold_init=args[1])
        if re.search(r' as Iterator>::next$', c):
            r = args[0]
            return [(s1, 'unwind' if k == 'unwind' else 'ret', Enum('Some', {0: v}) if k == 'some' else Enum('None', {}))
                    for (s1, k, v) in s.iter_next(st, r.cell, r.path, where)]
        m = re.match(r'Option::<.*>::is_(some|none)$', c)
        if m:
            v = st.get(args[0].cell, args[0].path) if isinstance(args[0], Ref) else args[0]
            return R(z3.BoolVal((v.variant == 'Some') == (m.group(1) == 'some')))
        if re.match(r'<[A-Z]\w* as Fn(Mut|Once)?<', c) and not s.find_fn(c):      # a call of a type parameter's closure (F, P, G, ...): caller code
            a = args[1] if len(args) > 1 else {}
            return s.extern_call(st, list(a.values()) if isinstance(a, dict) else [a], where, 'f')
        if re.search(r'Argument::<.*>::new_(display|debug)', c):
            return R(Opaque('fmt::Argument'))
        if re.search(r'Arguments::<.*>::(from_str|new_const|new_v1|new)', c) or re.search(r'Arguments::(from_str|new_const)', c):
            return R(Opaque('fmt::Arguments'))
        # ---- hex formatting: formatter, checked indexing, chunking, the encoder contract
        if re.match(r'Formatter::<.*>::precision$', c):
            s2 = st.clone()
            P = mkint('precision')
            if is_int():
                s2.pc.append(z3.And(P >= 0, P < TWO64))
            s2.notes = dict(s2.notes); s2.notes['precision'] = P
            st.notes = dict(st.notes); st.notes['precision'] = None
            return [(st, 'ret', Enum('None', {})), (s2, 'ret', Enum('Some', {0: P}))]
        if re.match(r'<\[.*\] as Index(Mut)?<RangeTo<usize>>>::index(_mut)?$', c):
            sl, r = args
            if isinstance(sl, ArrRef):
                sl = Slice(sl.arr, bv(0), sl.arr.len)
            ln = sl.end - sl.start
            outs = []
            if s.feasible(st, ULE(r[0], ln)):
                s1 = st.clone(); s1.pc.append(ULE(r[0], ln))
                outs.append((s1, 'ret', Slice(sl.arr, sl.start, sl.start + r[0])))
            if s.feasible(st, UGT(r[0], ln)):
                s2 = st.clone(); s2.pc.append(UGT(r[0], ln)); s2.events.append('slice index out of range: panic')
                outs.append((s2, 'unwind', None))
            return outs
        if re.match(r'<GenericArray<u8, <N as (core::ops::)?Add>::Output> as Default>::default$', c):
            st.calls += 1
            return R(Arr('Buf%d' % st.calls, s.N + s.N, kind='bytes'))
        if re.match(r'hex_encode(_fallback)?::<UPPER>$', c):
            src, dst = args
            sl, dl = src.end - src.start, dst.end - dst.start
            s.require(st, UGE(dl, sl + sl), 'hex encoder called with a destination shorter than 2 * source (unreachable_unchecked / unwrap_unchecked precondition)', where)
            st.notes = dict(st.notes)
            st.notes['encoded'] = st.notes.get('encoded', []) + [(src, dst)]
            return R(UNIT)
        if re.search(r'(^|::)from_utf8_unchecked$', c):
            return R(args[0])
        if re.match(r'Formatter::<.*>::pad$', c):
            # core: the string truncated to the precision (if any), then padded with the fill character up to the width (if any)
            sl = args[1]
            if isinstance(sl, ArrRef):
                sl = Slice(sl.arr, bv(0), sl.arr.len)
            ln = sl.end - sl.start
            outs = []
            base = []
            if 'precision' in st.notes:
                base.append(st)
            else:
                s0 = st.clone(); s0.notes = dict(s0.notes); s0.notes['precision'] = None; base.append(s0)
                s1 = st.clone(); s1.notes = dict(s1.notes); s1.notes['precision'] = mkint('precision'); base.append(s1)
            for b in base:
                P = b.notes['precision']
                shown = ln if P is None else z3.If(ULT(P, ln), P, ln)
                for wv in (None, mkint('width')):
                    s2 = b.clone()
                    s2.notes = dict(s2.notes)
                    s2.notes['written'] = s2.notes.get('written', []) + [Slice(sl.arr, sl.start, sl.start + shown)]
                    s2.notes['padding'] = bv(0) if wv is None else z3.If(ULT(shown, wv), wv - shown, bv(0))
                    s2.events.append('Formatter::pad (precision %s, width %s)' % (P, wv))
                    outs.append((s2, 'ret', Enum('Ok', {0: UNIT})))
                    s3 = s2.clone(); s3.events.append('pad -> Err'); outs.append((s3, 'ret', Enum('Err', {0: UNIT})))
            return outs
        if re.match(r'Formatter::<.*>::write_str$', c):
            sl = args[1]
            st.notes = dict(st.notes)
            st.notes['written'] = st.notes.get('written', []) + [sl]
            s2 = st.clone()
            s2.events.append('write_str -> Err')
            return [(st, 'ret', Enum('Ok', {0: UNIT})), (s2, 'ret', Enum('Err', {0: UNIT}))]
        if re.search(r' as Try>::branch$', c):
            v = args[0]
            return R(Enum('Continue' if v.variant in ('Ok', 'Some') else 'Break', dict(v.fields)))
        if re.search(r' as FromResidual<.*>>::from_residual$', c):
            if re.match(r'^<Option<', c):
                return R(Enum('None', {}))
            return R(Enum('Err', {0: UNIT}))
        if re.search(r'<impl \[.*\]>::chunks_exact(_mut)?$', c):
            sl, size = args
            if isinstance(sl, ArrRef):
                sl = Slice(sl.arr, bv(0), sl.arr.len)
            if size is not None and z3.is_expr(size) and s.feasible(st, size == 0):
                s.require(st, size != 0, 'chunks_exact with a chunk size of zero (panics)', where)
            ln = sl.end - sl.start
            q = s.div(st, ln, size)
            return R({'kind': 'chunks', 'arr': sl.arr, 'pos': sl.start, 'end': sl.start + q * size, 'size': size, 'rem_end': sl.end})
        if re.match(r'ChunksExact(Mut)?::<.*>::(remainder|into_remainder)$', c):
            it = args[0]
            while isinstance(it, Ref):
                it = st.get(it.cell, it.path)
            return R(Slice(it['arr'], it['end'], it['rem_end']))
        if re.search(r'<impl \[.*\]>::chunks(_mut)?$', c):
            sl, size = args
            if isinstance(sl, ArrRef):
                sl = Slice(sl.arr, bv(0), sl.arr.len)
            return R({'kind': 'chunks', 'arr': sl.arr, 'pos': sl.start, 'end': sl.end, 'size': size})
        if re.match(r'<Chunks(Mut)?<.*> as Iterator>::next$', c):
            r = args[0]
            it = st.get(r.cell, r.path)
            outs = []
            has = ULT(it['pos'], it['end'])
            if s.feasible(st, has):
                s1 = st.clone(); s1.pc.append(has)
                i1 = s1.get(r.cell, r.path)
                rem = i1['end'] - i1['pos']
                ln = z3.If(ULE(i1['size'], rem), i1['size'], rem)
                v = Slice(i1['arr'], i1['pos'], i1['pos'] + ln)
                i1['pos'] = i1['pos'] + ln
                outs.append((s1, 'ret', Enum('Some', {0: v})))
            if s.feasible(st, z3.Not(has)):
                s2 = st.clone(); s2.pc.append(z3.Not(has))
                outs.append((s2, 'ret', Enum('None', {})))
            return outs
        # ---- serde: the caller-supplied SeqAccess (may lie in its hints, fail at any element, or panic) and error constructors
        if re.match(r'^<A as SeqAccess<.*>>::size_hint$', c):
            r = args[0]
            q = st.get(r.cell, r.path)
            st.pc.append(ULE(q['yielded'], q['count']))      # invariant of this source model (re-stated: a loop summary may have havocked `yielded`)
            outs = []
            first = 'first_hint' not in q
            s0 = st.clone(); s0.events.append('seq.size_hint() -> None'); outs.append((s0, 'ret', Enum('None', {})))
            s1 = st.clone()
            h = mkint('hint%d' % next(State._ids))
            if first:      # the up-front announcement (the first thing the source is asked)
                s0.get(r.cell, r.path)['first_hint'] = 'none'
                s1.get(r.cell, r.path)['first_hint'] = h
            # the property's own exclusion: a source reporting "nothing left" while it still holds elements
            s1.pc.append(z3.Implies(h == 0, q['yielded'] == q['count']))
            s1.events.append('seq.size_hint() -> Some(%s)' % h)
            outs.append((s1, 'ret', Enum('Some', {0: h})))
            s2 = st.clone(); s2.events.append('seq.size_hint() panicked'); s.unwind_edges += 1; outs.append((s2, 'unwind', None))
            return outs
        m = re.match(r'^<A as SeqAccess<.*>>::next_element::<(\w+)>$', c)
        if m:
            r = args[0]
            q = st.get(r.cell, r.path)
            st.pc.append(ULE(q['yielded'], q['count']))
            outs = []
            s2 = st.clone(); s2.events.append('seq.next_element() panicked'); s.unwind_edges += 1; outs.append((s2, 'unwind', None))
            s3 = st.clone(); s3.events.append('seq.next_element() -> Err'); s3.get(r.cell, r.path)['failed'] = True; outs.append((s3, 'ret', Enum('Err', {0: Opaque('deserializer error')})))
            if s.feasible(st, q['yielded'] == q['count']):
                s0 = st.clone(); s0.pc.append(q['yielded'] == q['count']); s0.events.append('seq.next_element() -> Ok(None)')
                outs.append((s0, 'ret', Enum('Ok', {0: Enum('None', {})})))
            if s.feasible(st, ULT(q['yielded'], q['count'])):
                s1 = st.clone(); s1.pc.append(ULT(q['yielded'], q['count']))
                q1 = s1.get(r.cell, r.path)
                q1['yielded'] = q1['yielded'] + 1
                if m.group(1) == 'T':
                    k, v = s.fresh_value(s1, 'element')
                    s1.events.append('seq.next_element() -> Ok(Some(element))')
                else:
                    v = Opaque('Dummy')
                    s1.events.append('seq.next_element::<Dummy>() -> Ok(Some(_))')
                outs.append((s1, 'ret', Enum('Ok', {0: Enum('Some', {0: v})})))
            return outs
        if re.search(r' as (serde::)?de::Error>::invalid_length$', c) or re.search(r' as Error>::invalid_length$', c):
            s2 = st.clone(); s2.events.append('Error::invalid_length panicked'); s.unwind_edges += 1
            return [(st, 'ret', Opaque('invalid_length error')), (s2, 'unwind', None)]
        if re.match(r'^<Option<usize> as PartialEq>::ne$', c):
            a, b = args
            va = st.get(a.cell, a.path) if isinstance(a, Ref) else a
            if isinstance(b, Opaque) and 'promoted' in b.tag:
                fm = re.search(r'(\w+)(?:::<[^>]*>)?::promoted\[(\d+)\]$', b.tag)
                pm = fm and re.search(r'^const [^\n]*::' + fm.group(1) + r'::promoted\[' + fm.group(2) + r'\]: &(?:core::option::)?Option<usize> = \{[^}]*?Some\(const (\d+)_usize\)', s.mir_text or '', re.S | re.M)
                k0 = int(pm.group(1)) if pm else None
                if k0 is None:
                    raise NotImplementedError('promoted Option<usize> constant not found')
                if va.variant == 'None':
                    return R(z3.BoolVal(True))
                return R(va.fields[0] != bv(k0))
            raise NotImplementedError('Option<usize>::ne on non-constant')
        # ---- delegation targets: the slice's own trait methods and core::fmt builders stay UNINTERPRETED; the call is recorded
        m = re.match(r'^<\[T\] as (PartialEq|PartialOrd|Ord|Hash|Debug)>::(eq|ne|partial_cmp|cmp|hash|fmt|lt|le|gt|ge)(::<.*>)?$', c)
        if m:
            st.calls += 1
            r = Opaque('result of <[T] as %s>::%s #%d' % (m.group(1), m.group(2), st.calls))
            st.notes = dict(st.notes)
            st.notes['delegated'] = st.notes.get('delegated', []) + [(m.group(1) + '::' + m.group(2), args, r)]
            return R(r)
        m = re.match(r'^(Formatter::<.*>::debug_tuple|DebugTuple::<.*>::field|DebugTuple::<.*>::finish)$', c)
        if m:
            st.calls += 1
            kind = m.group(1).split('::')[-1]
            r = Opaque('%s #%d' % (kind, st.calls))
            a = list(args)
            if kind == 'field' and isinstance(a[1], Ref):
                a[1] = st.get(a[1].cell, a[1].path)
            st.notes = dict(st.notes)
            st.notes['fmt'] = st.notes.get('fmt', []) + [(kind, a, r)]
            return R(r)
        # ---- panics
        if re.search(r'(panic_fmt|panicking::panic|panic_display|panic_nounwind|from_iter_length_fail|assert_failed)', c):
            st.events.append('panic: ' + c[:60])
            st.notes = dict(st.notes)
            st.notes['own_panic'] = c[:60]      # a panic raised by the crate's own code (not by caller-supplied code)
            return [(st, 'unwind', None)]
        if re.search(r'unreachable_unchecked', c):
            s.require(st, z3.BoolVal(False), 'unreachable_unchecked() reached (undefined behaviour)', where)
            return []
        raise NotImplementedError('no summary for callee: ' + c)

    # ---------------------------------------------------------------- type-directed drop
    def struct_fields(s, name):
        """[(field, type)] of a struct defined in the crate's sources (declaration order = MIR field order), or None"""
        if not hasattr(s, '_structs'):
            s._structs = {}
            for dp, dn, fnames in os.walk(os.path.join(s.srcroot, 'src')):
                for f in fnames:
                    if f.endswith('.rs'):
                        text = re.sub(r'//[^\n]*', '', open(os.path.join(dp, f)).read())
                        for m in re.finditer(r'\bstruct\s+(\w+)\s*(?:<[^{;(]*>)?\s*(?:where[^{;]*)?\{([^}]*)\}', text):
                            fl = []
                            for part in split_top(m.group(2)):
                                mf = re.match(r'\s*(?:pub(?:\([^)]*\))?\s+)?(\w+)\s*:\s*(.+?)\s*$', part, re.S)
                                if mf:
                                    fl.append((mf.group(1), ' '.join(mf.group(2).split())))
                            s._structs.setdefault(m.group(1), fl)
        return s._structs.get(name)

    def drop_value(s, st, fr, local, ty, where, at=None):
        """-> [(state, 'ret'|'unwind')]"""
        if at is None:
            if local not in fr:
                return [(st, 'ret')]
            cell, path = fr[local], ()
        else:
            cell, path = at
        try:
            v = st.get(cell, path)
        except (KeyError, TypeError, IndexError, AttributeError):
            return [(st, 'ret')]
        head = norm(ty)
        m = re.match(r'(ArrayConsumer|IntrusiveArrayBuilder|ArrayBuilder|GenericArrayIter)<', head)
        if m:
            fn = s.pick(s.index[('Drop', m.group(1), 'drop')])
            outs = []
            for (s1, k, _) in s.run_fn(st, fn, [Ref(cell, path)]):
                outs.append((s1, k))
            return outs
        if head.startswith('ManuallyDrop<') or head.startswith(('&', '*const ', '*mut ', 'PhantomData<')):
            return [(st, 'ret')]
        mname = re.match(r'(\w+)(?:<|$)', head)
        if mname and isinstance(v, dict) and '__closure__' not in v and (('Drop', mname.group(1), 'drop') in s.index or s.struct_fields(mname.group(1)) is not None) \
                and mname.group(1) not in ('GenericArray', 'GenericArrayImplEven', 'GenericArrayImplOdd', 'Vec', 'Box'):
            # any other struct of the crate: its own Drop impl (if it has one) runs first, then the drop glue of its fields in declaration order;
            # a second panic while unwinding aborts (that path ends)
            outs = [(st, 'ret')]
            if ('Drop', mname.group(1), 'drop') in s.index:
                outs = [(s1, k) for (s1, k, _) in s.run_fn(st, s.pick(s.index[('Drop', mname.group(1), 'drop')]), [Ref(cell, path)])]
            fields = s.struct_fields(mname.group(1))
            if fields is None:
                raise NotImplementedError('drop glue of %s: struct definition not found in the sources' % mname.group(1))
            for i, (fname, fty) in enumerate(fields):
                nxt = []
                for (s2, k2) in outs:
                    for (s3, k3) in s.drop_value(s2, fr, None, fty, where, at=(cell, tuple(path) + (i,))):
                        if k2 == 'unwind' and k3 == 'unwind':
                            continue
                        nxt.append((s3, 'unwind' if 'unwind' in (k2, k3) else 'ret'))
                outs = nxt
            return outs
        if head.startswith('GenericArray<MaybeUninit<') or head.startswith('MaybeUninit<'):
            return [(st, 'ret')]
        if head == 'Vec<T>' and isinstance(v, dict) and v.get('kind') == 'vec':
            blk = v['blk']
            s.ev_drop_range(st, v['arr'], bv(0), v['len'], where, what='drop Vec elements')
            st.blocks[blk] = 'freed'
            st.events.append('free %s (Vec dropped)' % blk.name)
            outs = [(st, 'ret')]
            s2 = st.clone()
            if s.feasible(s2, ULT(bv(0), v['len'])):
                s2.pc.append(ULT(bv(0), v['len']))
                s2.events.append('  ^an element destructor panicked')
                s.unwind_edges += 1
                outs.append((s2, 'unwind'))
            return outs
        if head == 'Box<[T]>' and isinstance(v, BoxVal) and isinstance(v.ptr, Slice):
            sl = v.ptr
            s.ev_drop_range(st, sl.arr, sl.start, sl.end, where, what='drop boxed slice')
            if getattr(sl, 'block', None) in st.blocks:
                st.blocks[sl.block] = 'freed'
            return [(st, 'ret')]
        if head.startswith('Box<MaybeUninit<GenericArray<') or (isinstance(v, BoxVal) and not v.init):
            if isinstance(v, BoxVal) and isinstance(v.ptr, BlockPtr) and v.ptr.block in st.blocks:
                st.blocks[v.ptr.block] = 'freed'
                st.events.append('free %s (Box<MaybeUninit<..>> dropped: block freed, no element dropped)' % v.ptr.block.name)
            return [(st, 'ret')]
        if head.startswith('Box<GenericArray<'):
            if isinstance(v, BoxVal) and isinstance(v.ptr, BlockPtr):
                a = v.ptr.block.arr
                return s._drop_whole(st, a, where, after=lambda s1: s1.blocks.__setitem__(v.ptr.block, 'freed'))
            return [(st, 'ret')]
        if head.startswith('GenericArray<u8, '):
            return [(st, 'ret')]
        if re.match(r'GenericArray<\w+, ', head) or (head == 'Self' and isinstance(v, Arr)):
            if isinstance(v, Arr):
                return s._drop_whole(st, v, where)
            return [(st, 'ret')]
        if re.match(r'Result<GenericArray<\w+, .*>, LengthError>$', head):
            if isinstance(v, Enum) and v.variant == 'Ok' and isinstance(v.fields.get(0), Arr):
                return s._drop_whole(st, v.fields[0], where)
            return [(st, 'ret')]
        if re.match(r'Option<[TUB]>$', head) or head in ('T', 'U', 'B') or re.match(r'\((T|B|U), (T|B|U)\)$', head):
            vals = v.fields.values() if isinstance(v, Enum) else (v.values() if isinstance(v, dict) else [v])
            outs = [(st, 'ret')]
            for e in vals:
                if isinstance(e, Elem):
                    s.ev_drop_elem(st, e, where)
                    s2 = st.clone()
                    s2.events.append('  ^destructor of that value panicked')
                    s.unwind_edges += 1
                    outs.append((s2, 'unwind'))
            return outs
        return [(st, 'ret')]     # F, I, closures, adaptors over references, integers: nothing owned by the crate

    def _drop_whole(s, st, arr, where, after=None):
        s.ev_drop_range(st, arr, bv(0), arr.len, where, what='drop whole')
        if after:
            after(st)
        s2 = st.clone()
        ne = ULT(bv(0), arr.len)
        outs = [(st, 'ret')]
        if s.feasible(s2, ne):
            s2.pc.append(ne)
            s2.events.append('  ^an element destructor panicked')
            s.unwind_edges += 1
            outs.append((s2, 'unwind'))
        return outs

    def join_blocks(s, fn):
        """blocks with more than one predecessor (candidates for loop heads)"""
        if not hasattr(fn, '_joins'):
            cnt = {}
            for b, stmts in fn.blocks.items():
                for t in set(re.findall(r'bb\d+', stmts[-1] if stmts else '')):
                    cnt[t] = cnt.get(t, 0) + 1
            fn._joins = {b for b, n in cnt.items() if n >= 2 and b not in fn.cleanup}
        return fn._joins

    # ---------------------------------------------------------------- one function body
    def run_fn(s, st, fn, args):
        s.fns_run.add(fn.name + (' [CTFE]' if fn.ctfe else ''))
        if len(getattr(fn, 'ptypes', [])) == len(args):      # untracked pointer arguments take the permission their parameter type grants
            args = [with_prov(a, 'mut' if t_.startswith('&mut ') else 'shared') if isinstance(a, _Ptr) and not isinstance(a, Ref) and a.prov is None and t_.startswith('&') and not t_.startswith('&raw') else a
                    for a, t_ in zip(args, fn.ptypes)]
        fr = {p: st.new_cell(a) for p, a in zip(fn.params, args)}
        if s.heap_only and fn.name not in s._frames_checked:
            # the frame of a function is laid out for all of its locals at once (dev profile: every MIR local has a slot), so reaching the
            # function on a feasible path with a by-value array among its locals / arguments / return slot puts N * size_of::<T>() bytes on the stack
            s._frames_checked.add(fn.name)
            held = sorted((l, ty) for l, ty in fn.ltypes.items() if by_value_array(ty))
            if held:
                st.events.append('enter %s: local %s: %s' % (fn.name.split('>::')[-1], held[0][0], held[0][1]))
                # ... for some array of at least 256 KiB (sizes consistent: size_of_array == N * size_of::<T>() without overflow)
                big = z3.And(s.SZ == s.N * s.S, MULOK(s.N, s.S), UGE(s.SZ, bv(1 << 18)), ULT(s.SZ, bv(1 << 47))) if not is_int() else z3.And(s.SZ == s.N * s.S, s.SZ >= (1 << 18))
                s.require(st, z3.Not(big), 'whole array (>= 256 KiB) held by value in a stack frame on the path of a boxed constructor', fn.name.split('>::')[-1] + ':frame')
        results, work = [], [(st, fr, 'bb0')]
        while work:
            st, fr, bb = work.pop()
            cnt = st.visits.get((fn.name, bb), 0) + 1
            st.visits[(fn.name, bb)] = cnt
            if s.inductive and bb in s.join_blocks(fn):
                # MIR-level loop (a `for`/`while` in the crate's own body): same induction as for the adaptor pipelines, with the loop head
                # as cut point - first arrival: remember the entry state; second arrival: learn what one iteration changes and continue
                # from Inv(K); third arrival: require Inv(K+1) and stop this path (exits and unwind edges leave from Inv(K))
                lk = ('loop', fn.name, bb)
                if cnt == 1:
                    st.notes = dict(st.notes)
                    st.notes[lk] = ('entry', st.clone())
                elif cnt == 2 and st.notes.get(lk, (None,))[0] == 'entry':
                    built = s._build_inv(st.notes[lk][1], st, '%s:%s' % (fn.name.split('>::')[-1], bb))
                    if built is None:
                        if s.inductive == 'strict':
                            raise Inconclusive('loop invariant template does not fit the MIR loop at %s:%s' % (fn.name.split('>::')[-1], bb))
                    else:
                        inv, tmpl = built
                        # locals created inside the body keep the values of the learning iteration; they are reassigned before use
                        for c_ in st.heap:
                            if c_ not in inv.heap:
                                inv.heap[c_] = deep(st.heap[c_])
                        inv.visits = dict(st.visits)
                        inv.notes = dict(st.notes)
                        inv.notes[lk] = ('step', tmpl)
                        inv.calls = st.calls
                        inv.blocks = dict(st.blocks)
                        st = inv
                        s.inductive_used += 1
                elif cnt == 3 and st.notes.get(lk, (None,))[0] == 'step':
                    s._check_step(st.notes[lk][1], st, '%s:%s' % (fn.name.split('>::')[-1], bb))
                    continue
            if cnt > 4 * (s.loop_cap + 2) and len(fn.blocks) > 1:
                raise Inconclusive('unwinding assertion: block %s of %s visited more than %d times on one path' % (bb, fn.name, 4 * (s.loop_cap + 2)))
            stmts = fn.blocks[bb]
            s.cur_fn = fn
            for si_, line in enumerate(stmts[:-1]):
                s._stmt_ctx = (stmts, si_)
                if line.startswith(('StorageLive', 'StorageDead', 'nop', 'ConstEvalCounter', 'Retag', 'FakeRead', 'PlaceMention', 'Coverage', 'AscribeUserType')):
                    continue
                if line.startswith('assume('):
                    continue
                lhs, rhs = line.rstrip(';').split(' = ', 1)
                s.store(st, fr, s.parse_place(lhs), s.rvalue(st, fr, rhs))
            term = re.sub(r'"(?:[^"\\]|\\.)*"', lambda mm: '"' + re.sub(r'[^\w ]', '_', mm.group(0)[1:-1]) + '"', stmts[-1])
            where = '%s:%s' % (fn.name.split('>::')[-1], bb)
            if term == 'return;':
                results.append((st, 'ret', st.heap.get(fr.get('_0'), UNIT)))
                continue
            if term in ('resume;', 'unwind resume;'):
                results.append((st, 'unwind', None))
                continue
            if term == 'unreachable;':
                s.require(st, z3.BoolVal(False), 'MIR `unreachable` reached', where)
                continue
            m = re.fullmatch(r'goto -> (bb\d+);', term)
            if m:
                work.append((st, fr, m.group(1)))
                continue
            m = re.fullmatch(r'switchInt\((.+)\) -> \[(.+)\];', term)
            if m:
                v, taken = s.operand(st, fr, m.group(1)), []
                arms = []
                for arm in split_top(m.group(2)):
                    k, tgt = arm.split(': ')
                    if k == 'otherwise':
                        cond = z3.And(*[z3.Not(c) for c in taken]) if taken else z3.BoolVal(True)
                    else:
                        cond = (v == bv(int(k))) if (z3.is_bv(v) or z3.is_int(v)) else (v if int(k) != 0 else z3.Not(v))
                        taken.append(cond)
                    arms.append((cond, tgt))
                for cond, tgt in arms:
                    cond = z3.simplify(cond)
                    if s.feasible(st, cond):
                        s2 = st.clone()
                        if not z3.is_true(cond):
                            s2.pc.append(cond)
                        work.append((s2, dict(fr), tgt))
                continue
            m = re.fullmatch(r'assert\((!?)(.+?), "(.*?)".*\) -> \[success: (bb\d+), unwind(.+)\];', term)
            if m:
                c = s.operand(st, fr, m.group(2))
                c = z3.Not(c) if m.group(1) else c
                if 'overflow' in m.group(3) or 'divid' in m.group(3) or 'remainder' in m.group(3):
                    s.require(st, c, 'arithmetic overflow / division by zero possible', where)
                    work.append((st, fr, m.group(4)))
                else:
                    # a specified panic (e.g. bounds assert): follow both edges
                    if s.feasible(st, c):
                        s1 = st.clone()
                        s1.pc.append(c)
                        work.append((s1, dict(fr), m.group(4)))
                    if s.feasible(st, z3.Not(c)):
                        s2 = st.clone()
                        s2.pc.append(z3.Not(c))
                        s2.events.append('assert failed: ' + m.group(3)[:40])
                        unw = m.group(5).strip()
                        if unw == 'continue':
                            results.append((s2, 'unwind', None))
                        else:
                            work.append((s2, dict(fr), re.match(r': (bb\d+)', unw).group(1)))
                continue
            m = re.fullmatch(r'drop\((.+)\) -> \[return: (bb\d+), unwind(.+)\];', term)
            if m:
                local = m.group(1)
                if not re.fullmatch(r'_\d+', local):
                    raise NotImplementedError('drop of a projection ' + local)
                in_cleanup = bb in fn.cleanup
                for (s2, k) in s.drop_value(st.clone(), fr, local, fn.ltypes[local], where):
                    f2 = dict(fr)
                    unw = m.group(3).strip()
                    if k == 'ret':
                        work.append((s2, f2, m.group(2)))
                    elif unw == 'continue':
                        results.append((s2, 'unwind', None))
                    elif unw.startswith('terminate'):
                        pass      # second panic during cleanup: abort, nothing further runs
                    else:
                        work.append((s2, f2, re.match(r': (bb\d+)', unw).group(1)))
                continue
            pc_ = parse_call(term) if ' = ' in term else None
            if pc_:
                lhs, callee, argstr, rest = pc_
                av = [s.operand(st, fr, a) for a in split_top(argstr)]
                mret = re.fullmatch(r'\[return: (bb\d+), unwind(.+)\]', rest)
                if mret:
                    ret, unw = mret.group(1), mret.group(2).strip()
                else:
                    ret, unw = None, rest.strip()
                    if unw.startswith('unwind'):
                        unw = unw[len('unwind'):].strip()
                    elif re.fullmatch(r'bb\d+', unw):
                        unw = ': ' + unw
                for (s2, kind, val) in s.call(st.clone(), callee, av, where):
                    f2 = dict(fr)
                    if kind == 'ret':
                        if ret is None:
                            continue
                        if isinstance(val, Elem) and val.arr is s.V and fn.ltypes.get(lhs.strip()) == 'bool':
                            # caller code (a predicate) returned a bool: any truth value, not an owned element
                            s2.calls += 1
                            val = z3.Bool('pred_%d_%d' % (s2.calls, len(s2.pc)))
                        s.store(s2, f2, s.parse_place(lhs), val)
                        work.append((s2, f2, ret))
                    elif unw == 'continue':
                        results.append((s2, 'unwind', None))
                    elif unw.startswith(('terminate', 'unreachable')):
                        pass
                    else:
                        work.append((s2, f2, re.match(r': (bb\d+)', unw).group(1)))
                continue
            raise NotImplementedError('terminator ' + term)
        return results


def parse_call(term):
    """`lhs = callee(args) -> rest;`  ->  (lhs, callee, argstr, rest) with the argument list found by bracket matching from the right"""
    k = term.rfind(') -> ')
    while k != -1:
        head, rest = term[:k + 1], term[k + 5:]
        if ' = ' in head and re.match(r'(\[return: |unwind |bb\d+;?$)', rest):
            depth = 0
            for i in range(len(head) - 1, -1, -1):
                ch = head[i]
                if ch == ')':
                    depth += 1
                elif ch == '(':
                    depth -= 1
                    if depth == 0:
                        lhs, callee = head[:i].split(' = ', 1)
                        return lhs, callee, head[i + 1:-1], rest.rstrip(';')
        k = term.rfind(') -> ', 0, k)
    return None


def model_str(m):
    out = {}
    if m is None:
        return out
    for d in m.decls():
        try:
            out[str(d)] = m[d].as_long()
        except Exception:
            out[str(d)] = str(m[d])
    return out
