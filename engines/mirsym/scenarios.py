"""Scenarios for mirsym: each drives one or more functions of /repo's MIR from an arbitrary (symbolic)
valid state, follows every return and unwind path up to the scenario driver (which then drops what the
caller still owns) and discharges the end-of-scenario ledger obligations."""
import time, traceback
import z3
from mirsym import *


class Result:
    def __init__(s, name, props, bounds):
        s.name, s.props, s.bounds = name, props, bounds
        s.verdict, s.reason = 'pass', ''
        s.paths = s.unwind_paths = s.queries = 0
        s.solver_s = s.wall_s = 0.0
        s.discharged = 0
        s.findings = []
        s.functions, s.summaries = [], []
        s.samples = []

    def to_dict(s):
        return dict(name=s.name, properties=s.props, bounds=s.bounds, verdict=s.verdict, reason=s.reason, paths=s.paths,
                    unwind_paths=s.unwind_paths, queries=s.queries, solver_s=round(s.solver_s, 3), wall_s=round(s.wall_s, 3),
                    obligations=s.discharged + len(s.findings), discharged=s.discharged, findings=s.findings,
                    functions=s.functions, summaries=s.summaries, samples=s.samples)


def finish(res, ex, t0, paths, unwind_paths):
    res.paths, res.unwind_paths = paths, unwind_paths
    res.queries, res.solver_s, res.wall_s = ex.nq, ex.tsolve, time.time() - t0
    res.discharged = len(ex.discharged)
    res.functions = sorted(ex.fns_run)
    res.summaries = sorted(ex.summaries_used)
    seen = {}
    for k in ex.discharged:
        seen[k] = seen.get(k, 0) + 1
    res.samples = ['%s @ %s (discharged on %d path(s))' % (k[0], k[1], n) for k, n in list(seen.items())[:8]]
    for (kind, where), (m, trace, pc) in ex.found.items():
        res.findings.append({'kind': kind, 'where': where, 'model': model_str(m), 'trace': trace})
    if res.findings:
        res.verdict = 'violation'
    return res


def guarded(fn):
    def w(fns, src, nmax, **kw):
        t0 = time.time()
        try:
            return fn(fns, src, nmax, **kw)
        except Inconclusive as e:
            r = Result(kw.get('name', fn.__name__), [], '')
            r.verdict, r.reason, r.wall_s = 'inconclusive', str(e), time.time() - t0
            return r
        except NotImplementedError as e:
            r = Result(kw.get('name', fn.__name__), [], '')
            r.verdict, r.reason, r.wall_s = 'inconclusive', 'MIR construct or callee without encoding: ' + str(e), time.time() - t0
            return r
        except Exception as e:
            r = Result(kw.get('name', fn.__name__), [], '')
            r.verdict, r.reason, r.wall_s = 'inconclusive', 'internal error: %s: %s' % (type(e).__name__, traceback.format_exc().splitlines()[-3:]), time.time() - t0
            return r
    w.__name__ = fn.__name__
    return w


def syms(*names):
    return [z3.BitVec(n, W) for n in names]


def iter_state(ex, st, A, I, B, N, J):
    """arbitrary valid iterator state: index <= index_back <= N, exactly [index, index_back) alive"""
    st.pc += [z3.ULE(I, B), z3.ULE(B, N)]
    st.status[A] = z3.If(z3.And(z3.ULE(I, J), z3.ULT(J, B)), LIVE, EXTERN)
    return st.new_cell({0: A, 1: I, 2: B})


def end_no_leak(ex, st, A, N, J, where='end of scenario'):
    ex.require(st, z3.Implies(z3.ULT(J, N), z3.Or(st.status[A] == DROPPED, st.status[A] == EXTERN, st.status[A] == STORED)),
               'element neither dropped nor handed to the caller when everything is gone (leak)', where)


# ----------------------------------------------------------------------------------------------- C05 / C06
@guarded
def iter_skip(fns, src, nmax, which='nth', name=None):
    """nth / nth_back from an arbitrary valid position, ALL 64-bit N; a destructor may panic inside drop_in_place;
    afterwards the owner drops the iterator."""
    N, I, B, n, J = syms('N', 'index', 'index_back', 'n', 'J')
    res = Result(name or 'iter.' + which, ['C05', 'C06', 'C03'], 'all 64-bit N, index <= index_back <= N, skip count n any usize; loop-free')
    ex = Exec(fns, src, J, N, nmax=nmax)
    A = Arr('A', N)
    st = State()
    it = iter_state(ex, st, A, I, B, N, J)
    fn = ex.find_fn('<GenericArrayIter<T, N> as %s>::%s' % ('Iterator' if which == 'nth' else 'DoubleEndedIterator', which))
    t0, paths, unw = time.time(), 0, 0
    for (s2, kind, val) in ex.run_fn(st, fn, [Ref(it, ()), n]):
        paths += 1
        unw += kind == 'unwind'
        ln = B - I
        if kind == 'ret':
            # C06 post-state equations
            cur = s2.get(it, ())
            if which == 'nth':
                ex.require(s2, cur[1] == z3.If(z3.ULT(n, ln), I + n + 1, B), 'nth: index after the call differs from the queue model', 'post')
                ex.require(s2, cur[2] == B, 'nth moved the back index', 'post')
                if val.variant == 'Some':
                    ex.require(s2, z3.And(z3.ULT(n, ln), val.fields[0].idx == I + n), 'nth returned an element other than remaining[n]', 'post')
                else:
                    ex.require(s2, z3.UGE(n, ln), 'nth returned None although n < len', 'post')
            else:
                ex.require(s2, cur[2] == z3.If(z3.ULT(n, ln), B - n - 1, I), 'nth_back: index_back after the call differs from the queue model', 'post')
                ex.require(s2, cur[1] == I, 'nth_back moved the front index', 'post')
                if val.variant == 'Some':
                    ex.require(s2, z3.And(z3.ULT(n, ln), val.fields[0].idx == B - 1 - n), 'nth_back returned an element other than remaining[len-1-n]', 'post')
                else:
                    ex.require(s2, z3.UGE(n, ln), 'nth_back returned None although n < len', 'post')
            ex.require(s2, z3.And(z3.ULE(cur[1], cur[2]), z3.ULE(cur[2], N)), 'iterator invariant index <= index_back <= N broken', 'post')
            ex.ev_extern(s2, val)
        s2.events.append('[%s] owner drops the iterator' % kind)
        for (s3, k3, _) in ex.run_fn(s2, ex.pick(ex.index[('Drop', 'GenericArrayIter', 'drop')]), [Ref(it, ())]):
            if kind == 'ret' and k3 == 'ret':
                end_no_leak(ex, s3, A, N, J)
    return finish(res, ex, t0, paths, unw)


@guarded
def iter_simple(fns, src, nmax, which='next', name=None):
    """next / next_back / len / size_hint / count / last / as_slice / drop: post-state equations and ownership, ALL N"""
    N, I, B, J = syms('N', 'index', 'index_back', 'J')
    res = Result(name or 'iter.' + which, ['C06', 'C05', 'C03'], 'all 64-bit N, index <= index_back <= N; loop-free')
    ex = Exec(fns, src, J, N, nmax=nmax)
    A = Arr('A', N)
    st = State()
    it = iter_state(ex, st, A, I, B, N, J)
    ln = B - I
    trait = {'next': 'Iterator', 'next_back': 'DoubleEndedIterator', 'len': 'ExactSizeIterator', 'size_hint': 'Iterator', 'count': 'Iterator',
             'last': 'Iterator', 'drop': 'Drop'}.get(which)
    if which in ('as_slice', 'as_mut_slice'):
        fn = ex.find_fn('GenericArrayIter::<T, N>::' + which)
    else:
        fn = ex.pick(ex.index[(trait, 'GenericArrayIter', which)])
    byval = which in ('count', 'last')
    arg = st.get(it, ()) if byval else Ref(it, ())
    t0, paths, unw = time.time(), 0, 0
    for (s2, kind, val) in ex.run_fn(st, fn, [arg]):
        paths += 1
        unw += kind == 'unwind'
        if kind == 'ret':
            cur = s2.get(it, ()) if not byval else None
            if which == 'next':
                ex.require(s2, cur[1] == z3.If(I != B, I + 1, I), 'next: front index differs from the queue model', 'post')
                ex.require(s2, cur[2] == B, 'next moved the back index', 'post')
                if val.variant == 'Some':
                    ex.require(s2, z3.And(I != B, val.fields[0].idx == I), 'next returned an element other than the front one', 'post')
                else:
                    ex.require(s2, I == B, 'next returned None on a non-empty iterator', 'post')
            elif which == 'next_back':
                ex.require(s2, cur[2] == z3.If(I != B, B - 1, B), 'next_back: back index differs from the queue model', 'post')
                ex.require(s2, cur[1] == I, 'next_back moved the front index', 'post')
                if val.variant == 'Some':
                    ex.require(s2, z3.And(I != B, val.fields[0].idx == B - 1), 'next_back returned an element other than the back one', 'post')
                else:
                    ex.require(s2, I == B, 'next_back returned None on a non-empty iterator', 'post')
            elif which == 'len':
                ex.require(s2, val == ln, 'len() differs from the number of elements still to come', 'post')
            elif which == 'size_hint':
                ex.require(s2, z3.And(val[0] == ln, val[1].fields[0] == ln), 'size_hint differs from (len, Some(len))', 'post')
            elif which == 'count':
                ex.require(s2, val == ln, 'count() differs from the number of remaining elements', 'post')
            elif which == 'last':
                if val.variant == 'Some':
                    ex.require(s2, z3.And(I != B, val.fields[0].idx == B - 1), 'last() returned an element other than the back one', 'post')
                else:
                    ex.require(s2, I == B, 'last() returned None on a non-empty iterator', 'post')
            elif which in ('as_slice', 'as_mut_slice'):
                ex.require(s2, z3.And(val.arr is A, val.start == I, val.end == B), 'as_slice is not exactly the remaining range', 'post')
            if cur is not None:
                ex.require(s2, z3.And(z3.ULE(cur[1], cur[2]), z3.ULE(cur[2], N)), 'iterator invariant index <= index_back <= N broken', 'post')
            if isinstance(val, Enum):
                ex.ev_extern(s2, val)
        if byval or which == 'drop':
            if kind == 'ret':
                end_no_leak(ex, s2, A, N, J)
        else:
            s2.events.append('[%s] owner drops the iterator' % kind)
            for (s3, k3, _) in ex.run_fn(s2, ex.pick(ex.index[('Drop', 'GenericArrayIter', 'drop')]), [Ref(it, ())]):
                if kind == 'ret' and k3 == 'ret':
                    end_no_leak(ex, s3, A, N, J)
    return finish(res, ex, t0, paths, unw)


# ----------------------------------------------------------------------------------------------- C04
def bounded(ex, st, N, nmax):
    st.pc.append(z3.ULE(N, bv(nmax)))


def out_arrays(st):
    return [(a, stt) for a, stt in st.status.items() if a.name.startswith(('Out', 'Copy', 'Heap'))]


def end_checks(ex, s2, kind, val, inputs, N, J, where='end'):
    """generic end-of-scenario obligations for an operation that consumes `inputs` (arrays) and builds outputs"""
    inA = z3.ULT(J, N)
    if kind == 'ret':
        out = val
        if isinstance(out, BoxVal):
            out = out.ptr.block.arr
        if isinstance(out, Arr):
            ex.require(s2, z3.Implies(inA, ex.stat(s2, out) == LIVE), 'returned array has a slot that is not initialised', where)
        for A in inputs:
            ex.require(s2, z3.Implies(inA, z3.Or(s2.status[A] == EXTERN, s2.status[A] == DROPPED)), 'input element neither handed to the closure nor dropped', where)
    else:
        for A in inputs:
            ex.require(s2, z3.Implies(inA, z3.Or(s2.status[A] == EXTERN, s2.status[A] == DROPPED)), 'input element leaked on unwind', where + '(unwind)')
        for arr, stt in out_arrays(s2):
            ex.require(s2, z3.Implies(inA, z3.Or(stt == UNINIT, stt == DROPPED)), 'already-built output element leaked on unwind', where + '(unwind)')
    if ex.V is not None:
        ex.require(s2, ex.stat(s2, ex.V) != HELD, 'value produced by caller code lost (neither stored, dropped nor returned)', where)
    for blk, owner in s2.blocks.items():
        ok = (owner == 'freed') or (owner == 'boxed' and kind == 'ret')
        ex.require(s2, z3.BoolVal(ok), 'heap block neither freed nor owned by the returned Box when the operation ends (leak)', where + '(%s)' % kind)


@guarded
def op_generate(fns, src, nmax, boxed=False, name=None):
    N, J = syms('N', 'J')
    res = Result(name or ('box_generate' if boxed else 'generate'), ['C04', 'C16'] if boxed else ['C04'],
                 'N <= %d symbolic (for_each unrolled, unwinding assertion on), the generator may panic at every call' % nmax)
    ex = Exec(fns, src, J, N, nmax=nmax)
    ex.V = Arr('F', bv(2 ** 63))
    st = State()
    bounded(ex, st, N, nmax)
    st.pc.append((ex.SZ == 0) == z3.Or(N == 0, ex.S == 0))
    if boxed:
        fn = ex.pick(ex.index[('GenericSequence', 'Box', 'generate')])
    else:
        fn = ex.pick(ex.index[('GenericSequence', 'GenericArray', 'generate')])
    t0, paths, unw = time.time(), 0, 0
    for (s2, kind, val) in ex.run_fn(st, fn, [Opaque('F')]):
        paths += 1
        unw += kind == 'unwind'
        end_checks(ex, s2, kind, val, [], N, J)
    return finish(res, ex, t0, paths, unw)


@guarded
def op_map(fns, src, nmax, name=None):
    N, J = syms('N', 'J')
    res = Result(name or 'map(owned)', ['C04'], 'N <= %d, the closure may panic at every call' % nmax)
    ex = Exec(fns, src, J, N, nmax=nmax)
    ex.V = Arr('F', bv(2 ** 63))
    A = Arr('A', N)
    st = State()
    bounded(ex, st, N, nmax)
    st.status[A] = LIVE
    fn = ex.pick(ex.index[('FunctionalSequence', 'GenericArray', 'map')])
    t0, paths, unw = time.time(), 0, 0
    for (s2, kind, val) in ex.run_fn(st, fn, [A, Opaque('F')]):
        paths += 1
        unw += kind == 'unwind'
        end_checks(ex, s2, kind, val, [A], N, J)
    return finish(res, ex, t0, paths, unw)


@guarded
def op_fold(fns, src, nmax, name=None):
    N, J = syms('N', 'J')
    res = Result(name or 'fold(owned)', ['C04'], 'N <= %d, the closure may panic at every call' % nmax)
    ex = Exec(fns, src, J, N, nmax=nmax)
    ex.V = Arr('F', bv(2 ** 63))
    A = Arr('A', N)
    st = State()
    bounded(ex, st, N, nmax)
    st.status[A] = LIVE
    fn = ex.pick(ex.index[('FunctionalSequence', 'GenericArray', 'fold')])
    t0, paths, unw = time.time(), 0, 0
    for (s2, kind, val) in ex.run_fn(st, fn, [A, Opaque('init'), Opaque('F')]):
        paths += 1
        unw += kind == 'unwind'
        if kind == 'ret':
            ex.ev_extern(s2, val)
        end_checks(ex, s2, kind, None, [A], N, J)
    return finish(res, ex, t0, paths, unw)


@guarded
def op_zip_owned(fns, src, nmax, name=None):
    """GenericArray::inverted_zip (owned x owned), both needs_drop branches (needs_drop symbolic)"""
    N, J = syms('N', 'J')
    res = Result(name or 'zip(owned,owned)', ['C04'], 'N <= %d, needs_drop::<T>() / needs_drop::<B>() symbolic, the closure may panic at every call' % nmax)
    ex = Exec(fns, src, J, N, nmax=nmax)
    ex.V = Arr('F', bv(2 ** 63))
    A, Bv = Arr('Right', N), Arr('Left', N)
    st = State()
    bounded(ex, st, N, nmax)
    st.status[A] = LIVE
    st.status[Bv] = LIVE
    fn = ex.pick(ex.index[('GenericSequence', 'GenericArray', 'inverted_zip')])
    t0, paths, unw = time.time(), 0, 0
    for (s2, kind, val) in ex.run_fn(st, fn, [A, Bv, Opaque('F')]):
        paths += 1
        unw += kind == 'unwind'
        nd = z3.Or(ex.needs_drop.get('T', z3.BoolVal(True)), ex.needs_drop.get('B', z3.BoolVal(True)))
        if kind == 'ret':
            end_checks(ex, s2, kind, val, [A, Bv], N, J)
        else:
            # the ledger only matters when some element type needs drop (the other branch is deliberately ledger-free)
            if ex.feasible(s2, nd):
                s2.pc.append(nd)
                end_checks(ex, s2, kind, val, [A, Bv], N, J)
    return finish(res, ex, t0, paths, unw)


@guarded
def iter_clone(fns, src, nmax, name=None):
    N, I, B, J = syms('N', 'index', 'index_back', 'J')
    res = Result(name or 'iter.clone', ['C04', 'C06', 'C03'], 'N <= %d, every position, T::clone may panic at every call' % nmax)
    ex = Exec(fns, src, J, N, nmax=nmax)
    ex.V = Arr('Cl', bv(2 ** 63))
    A = Arr('A', N)
    st = State()
    bounded(ex, st, N, nmax)
    it = iter_state(ex, st, A, I, B, N, J)
    fn = ex.pick(ex.index[('Clone', 'GenericArrayIter', 'clone')])
    t0, paths, unw = time.time(), 0, 0
    for (s2, kind, val) in ex.run_fn(st, fn, [Ref(it, ())]):
        paths += 1
        unw += kind == 'unwind'
        if kind == 'ret':
            C = val[0]
            ex.require(s2, val[2] - val[1] == B - I, 'clone has a different number of remaining elements', 'post')
            ex.require(s2, z3.And(z3.ULE(val[1], val[2]), z3.ULE(val[2], N)), 'clone violates index <= index_back <= N', 'post')
            ex.require(s2, z3.Implies(z3.ULT(J, N), (ex.stat(s2, C) == LIVE) == z3.And(z3.ULE(val[1], J), z3.ULT(J, val[2]))),
                       'clone claims a slot that is not initialised, or holds an initialised slot it does not claim', 'post')
        else:
            for C, stt in out_arrays(s2):
                ex.require(s2, z3.Implies(z3.ULT(J, N), stt != LIVE), 'clones already written are leaked when a later T::clone panics', 'end(unwind)')
        ex.require(s2, z3.Implies(z3.And(z3.ULE(I, J), z3.ULT(J, B)), s2.status[A] == LIVE), 'original iterator disturbed by clone', 'end')
        cur = s2.get(it, ())
        ex.require(s2, z3.And(cur[1] == I, cur[2] == B), 'original iterator position changed by clone', 'end')
        ex.require(s2, ex.stat(s2, ex.V) != HELD, 'a cloned value was lost', 'end')
    return finish(res, ex, t0, paths, unw)


@guarded
def guard_drop(fns, src, nmax, which='ArrayConsumer', name=None):
    """Drop of the three guards at an arbitrary position p <= N: ALL N (loop-free); a destructor may panic"""
    N, P, J = syms('N', 'position', 'J')
    res = Result(name or 'drop(%s)' % which, ['C04', 'C05'], 'all 64-bit N, position <= N; loop-free')
    ex = Exec(fns, src, J, N, nmax=nmax)
    A = Arr('A', N)
    st = State()
    st.pc.append(z3.ULE(P, N))
    if which == 'ArrayConsumer':
        st.status[A] = z3.If(z3.UGE(J, P), LIVE, EXTERN)       # [position, N) still owned
        g = st.new_cell({0: A, 1: P})
    elif which == 'ArrayBuilder':
        st.status[A] = z3.If(z3.ULT(J, P), LIVE, UNINIT)       # [0, position) built
        g = st.new_cell({0: A, 1: P})
    else:
        st.status[A] = z3.If(z3.ULT(J, P), LIVE, UNINIT)
        g = st.new_cell({0: ArrRef(A), 1: P})
    fn = ex.pick(ex.index[('Drop', which, 'drop')])
    t0, paths, unw = time.time(), 0, 0
    for (s2, kind, val) in ex.run_fn(st, fn, [Ref(g, ())]):
        paths += 1
        unw += kind == 'unwind'
        if kind == 'ret':
            ex.require(s2, z3.Implies(z3.ULT(J, N), s2.status[A] != LIVE), 'guard left an element it owns alive (leak)', 'end')
    return finish(res, ex, t0, paths, unw)


@guarded
def op_try_from_iter(fns, src, nmax, name=None):
    """try_from_iter with a caller-supplied source that may panic in next() or size_hint() at every call"""
    N, J, C, LO, HI = syms('N', 'J', 'count', 'hint_lo', 'hint_hi')
    res = Result(name or 'try_from_iter', ['C04', 'C07'], 'N <= %d, source yields count <= N+2 items, size_hint unconstrained, next()/size_hint() may panic at every call' % nmax)
    ex = Exec(fns, src, J, N, nmax=nmax + 2)
    ex.V = Arr('Items', bv(2 ** 63))
    st = State()
    bounded(ex, st, N, nmax)
    st.pc.append(z3.ULE(C, N + 2))
    has_hi = z3.Bool('hint_has_hi')
    src_it = {'kind': 'source', 'count': C, 'yielded': bv(0), 'ended': z3.BoolVal(False),
              'hint': {0: LO, 1: Enum('Some', {0: HI})}}
    fn = ex.find_fn('GenericArray::<T, N>::try_from_iter')
    t0, paths, unw = time.time(), 0, 0
    # Option<usize> upper bound: two runs (Some / None)
    for hi_variant in ('Some', 'None'):
        s0 = st.clone()
        it = dict(src_it)
        it['hint'] = {0: LO, 1: Enum('Some', {0: HI}) if hi_variant == 'Some' else Enum('None', {})}
        for (s2, kind, val) in ex.run_fn(s0, fn, [it]):
            paths += 1
            unw += kind == 'unwind'
            inA = z3.ULT(J, N)
            if kind == 'ret':
                if val.variant == 'Ok':
                    ex.require(s2, z3.Implies(inA, ex.stat(s2, val.fields[0]) == LIVE), 'Ok array has a slot that is not initialised', 'end')
                    ex.require(s2, C == N, 'Ok although the source did not yield exactly N items', 'end')
                    ex.ev_extern(s2, {})
                else:
                    for arr, stt in out_arrays(s2):
                        ex.require(s2, z3.Implies(inA, z3.Or(stt == UNINIT, stt == DROPPED)), 'items already stored are leaked on LengthError', 'end')
            else:
                for arr, stt in out_arrays(s2):
                    ex.require(s2, z3.Implies(inA, z3.Or(stt == UNINIT, stt == DROPPED)), 'items already stored are leaked when the source panics', 'end(unwind)')
            # items pulled from the source and not stored in a returned array must have been dropped
            okret = kind == 'ret' and val.variant == 'Ok'
            ex.require(s2, z3.Or(ex.stat(s2, ex.V) == UNINIT, ex.stat(s2, ex.V) == DROPPED, ex.stat(s2, ex.V) == STORED),
                       'an item pulled from the source was lost (neither stored nor dropped)', 'end(%s)' % kind)
    return finish(res, ex, t0, paths, unw)
