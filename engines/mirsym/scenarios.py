"""Scenarios for mirsym: each drives one or more functions of /repo's MIR from an arbitrary (symbolic)
valid state, follows every return and unwind path up to the scenario driver (which then drops what the
caller still owns) and discharges the end-of-scenario ledger obligations."""
import time, traceback
import z3
from mirsym import *
import mirsym
import re


class Result:
    def __init__(s, name, props, bounds):
        s.name, s.props, s.bounds = name, props, bounds
        s.verdict, s.reason = 'pass', ''
        s.paths = s.unwind_paths = s.queries = 0
        s.solver_s = s.wall_s = 0.0
        s.discharged = 0
        s.findings = []
        s.functions, s.summaries = [], []
        s.samples = []

    def to_dict(s):
        return dict(name=s.name, properties=s.props, bounds=s.bounds, verdict=s.verdict, reason=s.reason, paths=s.paths,
                    unwind_paths=s.unwind_paths, queries=s.queries, solver_s=round(s.solver_s, 3), wall_s=round(s.wall_s, 3),
                    obligations=s.discharged + len(s.findings), discharged=s.discharged, findings=s.findings,
                    functions=s.functions, summaries=s.summaries, samples=s.samples)


def finish(res, ex, t0, paths, unwind_paths):
    res.paths, res.unwind_paths = paths, unwind_paths
    res.queries, res.solver_s, res.wall_s = ex.nq, ex.tsolve, time.time() - t0
    res.discharged = len(ex.discharged)
    res.functions = sorted(ex.fns_run)
    res.summaries = sorted(ex.summaries_used)
    seen = {}
    for k in ex.discharged:
        seen[k] = seen.get(k, 0) + 1
    res.samples = ['%s @ %s (discharged on %d path(s))' % (k[0], k[1], n) for k, n in list(seen.items())[:8]]
    for (kind, where), (m, trace, pc) in ex.found.items():
        res.findings.append({'kind': kind, 'where': where, 'model': model_str(m), 'trace': trace})
    if res.findings:
        res.verdict = 'violation'
    return res


def guarded(fn):
    def w(fns, src, nmax, **kw):
        t0 = time.time()
        try:
            return fn(fns, src, nmax, **kw)
        except Inconclusive as e:
            r = Result(kw.get('name', fn.__name__), [], '')
            r.verdict, r.reason, r.wall_s = 'inconclusive', str(e), time.time() - t0
            return r
        except NotImplementedError as e:
            r = Result(kw.get('name', fn.__name__), [], '')
            r.verdict, r.reason, r.wall_s = 'inconclusive', 'MIR construct or callee without encoding: ' + str(e), time.time() - t0
            return r
        except Exception as e:
            r = Result(kw.get('name', fn.__name__), [], '')
            if os.environ.get('MIRSYM_TRACEBACK'): traceback.print_exc()
            r.verdict, r.reason, r.wall_s = 'inconclusive', 'internal error: %s: %s' % (type(e).__name__, traceback.format_exc().splitlines()[-3:]), time.time() - t0
            return r
    w.__name__ = fn.__name__
    return w


def syms(*names):
    return [mkint(n) for n in names]


def new_state():
    st = State()
    st.pc += list(RANGE)
    return st


def iter_state(ex, st, A, I, B, N, J):
    """arbitrary valid iterator state: index <= index_back <= N, exactly [index, index_back) alive"""
    st.pc += [ULE(I, B), ULE(B, N)]
    st.status[A] = z3.If(z3.And(ULE(I, J), ULT(J, B)), LIVE, EXTERN)
    return st.new_cell({0: A, 1: I, 2: B})


def nd_T(ex):
    """needs_drop::<T>() if the code under analysis asks for it (then symbolic), else true: an element without drop glue that is never
    dropped is not a leak, so the element-leak obligations are stated for element types that need dropping"""
    return ex.needs_drop.get('T', z3.BoolVal(True))


def nd_all(ex):
    """every needs_drop symbol the code asked for: used for OUTPUT arrays, whose element type is named differently in the generic bodies that
    build them (the builder's `T` is the caller's `U`); if every type involved needs dropping, so does the output's"""
    vals = list(ex.needs_drop.values())
    return z3.And(*vals) if vals else z3.BoolVal(True)


def end_no_leak(ex, st, A, N, J, where='end of scenario'):
    ex.require(st, z3.Implies(z3.And(ULT(J, N), nd_T(ex)), z3.Or(st.status[A] == DROPPED, st.status[A] == EXTERN, st.status[A] == STORED)),
               'element neither dropped nor handed to the caller when everything is gone (leak)', where)


# ----------------------------------------------------------------------------------------------- C05 / C06
@guarded
def iter_skip(fns, src, nmax, which='nth', name=None):
    """nth / nth_back from an arbitrary valid position, ALL 64-bit N; a destructor may panic inside drop_in_place;
    afterwards the owner drops the iterator."""
    N, I, B, n, J = syms('N', 'index', 'index_back', 'n', 'J')
    res = Result(name or 'iter.' + which, ['C05', 'C06', 'C03'], 'all 64-bit N, index <= index_back <= N, skip count n any usize; loop-free')
    ex = Exec(fns, src, J, N, nmax=nmax)
    A = Arr('A', N)
    st = new_state()
    it = iter_state(ex, st, A, I, B, N, J)
    fn = ex.find_fn('<GenericArrayIter<T, N> as %s>::%s' % ('Iterator' if which == 'nth' else 'DoubleEndedIterator', which))
    t0, paths, unw = time.time(), 0, 0
    for (s2, kind, val) in ex.run_fn(st, fn, [Ref(it, ()), n]):
        paths += 1
        unw += kind == 'unwind'
        ln = B - I
        if kind == 'ret':
            # C06 post-state equations
            cur = s2.get(it, ())
            if which == 'nth':
                ex.require(s2, cur[1] == z3.If(ULT(n, ln), I + n + 1, B), 'nth: index after the call differs from the queue model', 'post')
                ex.require(s2, cur[2] == B, 'nth moved the back index', 'post')
                if val.variant == 'Some':
                    ex.require(s2, z3.And(ULT(n, ln), val.fields[0].idx == I + n), 'nth returned an element other than remaining[n]', 'post')
                else:
                    ex.require(s2, UGE(n, ln), 'nth returned None although n < len', 'post')
            else:
                ex.require(s2, cur[2] == z3.If(ULT(n, ln), B - n - 1, I), 'nth_back: index_back after the call differs from the queue model', 'post')
                ex.require(s2, cur[1] == I, 'nth_back moved the front index', 'post')
                if val.variant == 'Some':
                    ex.require(s2, z3.And(ULT(n, ln), val.fields[0].idx == B - 1 - n), 'nth_back returned an element other than remaining[len-1-n]', 'post')
                else:
                    ex.require(s2, UGE(n, ln), 'nth_back returned None although n < len', 'post')
            ex.require(s2, z3.And(ULE(cur[1], cur[2]), ULE(cur[2], N)), 'iterator invariant index <= index_back <= N broken', 'post')
            ex.ev_extern(s2, val)
        s2.events.append('[%s] owner drops the iterator' % kind)
        for (s3, k3, _) in ex.run_fn(s2, ex.pick(ex.index[('Drop', 'GenericArrayIter', 'drop')]), [Ref(it, ())]):
            if kind == 'ret' and k3 == 'ret':
                end_no_leak(ex, s3, A, N, J)
    return finish(res, ex, t0, paths, unw)


@guarded
def iter_simple(fns, src, nmax, which='next', name=None):
    """next / next_back / len / size_hint / count / last / as_slice / drop: post-state equations and ownership, ALL N"""
    N, I, B, J = syms('N', 'index', 'index_back', 'J')
    res = Result(name or 'iter.' + which, ['C06', 'C05', 'C03'], 'all 64-bit N, index <= index_back <= N; loop-free')
    ex = Exec(fns, src, J, N, nmax=nmax)
    A = Arr('A', N)
    st = new_state()
    it = iter_state(ex, st, A, I, B, N, J)
    ln = B - I
    trait = {'next': 'Iterator', 'next_back': 'DoubleEndedIterator', 'len': 'ExactSizeIterator', 'size_hint': 'Iterator', 'count': 'Iterator',
             'last': 'Iterator', 'drop': 'Drop'}.get(which)
    if which in ('as_slice', 'as_mut_slice'):
        fn = ex.find_fn('GenericArrayIter::<T, N>::' + which)
    else:
        fn = ex.pick(ex.index[(trait, 'GenericArrayIter', which)])
    byval = which in ('count', 'last')
    arg = st.get(it, ()) if byval else Ref(it, ())
    t0, paths, unw = time.time(), 0, 0
    for (s2, kind, val) in ex.run_fn(st, fn, [arg]):
        paths += 1
        unw += kind == 'unwind'
        if kind == 'ret':
            cur = s2.get(it, ()) if not byval else None
            if which == 'next':
                ex.require(s2, cur[1] == z3.If(I != B, I + 1, I), 'next: front index differs from the queue model', 'post')
                ex.require(s2, cur[2] == B, 'next moved the back index', 'post')
                if val.variant == 'Some':
                    ex.require(s2, z3.And(I != B, val.fields[0].idx == I), 'next returned an element other than the front one', 'post')
                else:
                    ex.require(s2, I == B, 'next returned None on a non-empty iterator', 'post')
            elif which == 'next_back':
                ex.require(s2, cur[2] == z3.If(I != B, B - 1, B), 'next_back: back index differs from the queue model', 'post')
                ex.require(s2, cur[1] == I, 'next_back moved the front index', 'post')
                if val.variant == 'Some':
                    ex.require(s2, z3.And(I != B, val.fields[0].idx == B - 1), 'next_back returned an element other than the back one', 'post')
                else:
                    ex.require(s2, I == B, 'next_back returned None on a non-empty iterator', 'post')
            elif which == 'len':
                ex.require(s2, val == ln, 'len() differs from the number of elements still to come', 'post')
            elif which == 'size_hint':
                ex.require(s2, z3.And(val[0] == ln, val[1].fields[0] == ln), 'size_hint differs from (len, Some(len))', 'post')
            elif which == 'count':
                ex.require(s2, val == ln, 'count() differs from the number of remaining elements', 'post')
            elif which == 'last':
                if val.variant == 'Some':
                    ex.require(s2, z3.And(I != B, val.fields[0].idx == B - 1), 'last() returned an element other than the back one', 'post')
                else:
                    ex.require(s2, I == B, 'last() returned None on a non-empty iterator', 'post')
            elif which in ('as_slice', 'as_mut_slice'):
                ex.require(s2, z3.And(val.arr is A, val.start == I, val.end == B), 'as_slice is not exactly the remaining range', 'post')
            if cur is not None:
                ex.require(s2, z3.And(ULE(cur[1], cur[2]), ULE(cur[2], N)), 'iterator invariant index <= index_back <= N broken', 'post')
            if isinstance(val, Enum):
                ex.ev_extern(s2, val)
        if byval or which == 'drop':
            if kind == 'ret':
                end_no_leak(ex, s2, A, N, J)
        else:
            s2.events.append('[%s] owner drops the iterator' % kind)
            for (s3, k3, _) in ex.run_fn(s2, ex.pick(ex.index[('Drop', 'GenericArrayIter', 'drop')]), [Ref(it, ())]):
                if kind == 'ret' and k3 == 'ret':
                    end_no_leak(ex, s3, A, N, J)
    return finish(res, ex, t0, paths, unw)


@guarded
def iter_into_iter(fns, src, nmax, name=None):
    """IntoIterator for GenericArray, ALL 64-bit N: the new iterator holds all N elements - observed through the crate's own len() and
    size_hint() and the element-ownership ledger (whatever the cursor fields are called or typed), then dropped by its owner."""
    N, J = syms('N', 'J')
    res = Result(name or 'iter.into_iter', ['C06', 'C03'], 'all 64-bit N; loop-free')
    ex = Exec(fns, src, J, N, nmax=nmax)
    A = Arr('A', N)
    st = new_state()
    st.status[A] = LIVE
    fn = ex.pick(ex.index[('IntoIterator', 'GenericArray', 'into_iter')])
    t0, paths, unw = time.time(), 0, 0
    for (s2, kind, val) in ex.run_fn(st, fn, [A]):
        paths += 1
        unw += kind == 'unwind'
        if kind != 'ret':
            continue
        it = s2.new_cell(val)
        for (s3, k3, v3) in ex.run_fn(s2, ex.pick(ex.index[('ExactSizeIterator', 'GenericArrayIter', 'len')]), [Ref(it, ())]):
            if k3 == 'ret':
                ex.require(s3, v3 == N, 'into_iter: len() of the fresh iterator is not N', 'post(len)')
            lst = ex.index.get(('Iterator', 'GenericArrayIter', 'size_hint'))
            for (s4, k4, v4) in (ex.run_fn(s3, ex.pick(lst), [Ref(it, ())]) if lst else []):
                if k4 == 'ret':
                    ex.require(s4, z3.And(v4[0] == N, v4[1].fields[0] == N), 'into_iter: size_hint() of the fresh iterator is not (N, Some(N))', 'post(size_hint)')
                s4.events.append('owner drops the iterator')
                for (s5, k5, _) in ex.run_fn(s4, ex.pick(ex.index[('Drop', 'GenericArrayIter', 'drop')]), [Ref(it, ())]):
                    if k5 == 'ret':
                        leftovers = [a for a in s5.status if a.name.startswith(('A', 'Moved', 'Copy'))]
                        for a in leftovers:
                            ex.require(s5, z3.Implies(z3.And(ULT(J, N), nd_T(ex)), z3.Or(s5.status[a] == DROPPED, s5.status[a] == UNINIT, s5.status[a] == EXTERN, s5.status[a] == STORED)),
                                       'element neither dropped nor handed on when a fresh iterator is dropped (leak)', 'end')
    return finish(res, ex, t0, paths, unw)


KNOWN_ITER_METHODS = {'next', 'size_hint', 'count', 'last', 'nth', 'fold', 'next_back', 'nth_back', 'rfold', 'len', 'clone', 'clone_from', 'drop', 'fmt',
                      'as_slice', 'as_mut_slice'}


@guarded
def iter_overrides(fns, src, nmax, name=None):
    """every *other* method the crate defines for GenericArrayIter in its Iterator / DoubleEndedIterator / ExactSizeIterator impls (an override of a
    provided method: find, position, any, all, for_each, try_fold, advance_by, ...), run generically from an arbitrary valid position with N <= nmax:
    closures are caller code (may panic at every call), usize arguments are unconstrained, element destructors may panic; afterwards the owner
    drops the iterator. Ownership obligations only (no double drop / stale read / leak, iterator invariant) - what such a method returns is
    decided by K's comparison with the queue model."""
    N, I, B, J = syms('N', 'index', 'index_back', 'J')
    res = Result(name or 'iter.overrides', ['C05', 'C06', 'C04', 'C03'], 'N <= %d, index <= index_back <= N; every overridden provided method of the iterator impls; closures and destructors may panic' % nmax)
    ex = Exec(fns, src, J, N, nmax=nmax)
    ex.V = Arr('F', bv(2 ** 63))
    t0, paths, unw, ran = time.time(), 0, 0, []
    for (trait, head, meth), lst in sorted(ex.index.items(), key=lambda kv: str(kv[0])):
        if head != 'GenericArrayIter' or trait not in ('Iterator', 'DoubleEndedIterator', 'ExactSizeIterator') or meth in KNOWN_ITER_METHODS:
            continue
        fn = ex.pick(lst)
        A = Arr('A_' + meth, N)
        st = new_state()
        bounded(ex, st, N, nmax)
        it = iter_state(ex, st, A, I, B, N, J)
        byval = not fn.ptypes[0].startswith('&')
        args = [st.get(it, ()) if byval else Ref(it, ())]
        for k, ty in enumerate(fn.ptypes[1:]):
            if ty.strip() == 'usize':
                args.append(syms('arg%d_%s' % (k, meth))[0])
            elif ty.strip() == 'bool':
                args.append(z3.Bool('arg%d_%s' % (k, meth)))
            else:
                args.append(Opaque('F'))      # a closure / initial accumulator supplied by the caller
        ran.append('%s::%s' % (trait, meth))
        for (s2, kind, val) in ex.run_fn(st, fn, args):
            paths += 1
            unw += kind == 'unwind'
            if kind == 'ret':
                ex.ev_extern(s2, val)
                if not byval:
                    cur = s2.get(it, ())
                    ex.require(s2, z3.And(ULE(cur[1], cur[2]), ULE(cur[2], N)), 'iterator invariant index <= index_back <= N broken', 'post(%s)' % meth)
            if byval:
                if kind == 'ret':
                    end_no_leak(ex, s2, A, N, J)
            else:
                s2.events.append('[%s] owner drops the iterator' % kind)
                for (s3, k3, _) in ex.run_fn(s2, ex.pick(ex.index[('Drop', 'GenericArrayIter', 'drop')]), [Ref(it, ())]):
                    if kind == 'ret' and k3 == 'ret':
                        end_no_leak(ex, s3, A, N, J)
    res.bounds += '; methods found: %s' % (', '.join(ran) or 'none (the crate overrides nothing beyond the methods with scenarios of their own)')
    return finish(res, ex, t0, paths, unw)


# ----------------------------------------------------------------------------------------------- C04
def bounded(ex, st, N, nmax):
    """N <= nmax for unrolled pipelines; no bound at all when the loops are summarised by an (auto-checked) invariant"""
    if ex.inductive:
        return
    st.pc.append(ULE(N, bv(nmax)))


def out_arrays(st):
    return [(a, stt) for a, stt in st.status.items() if a.name.startswith(('Out', 'Copy', 'Heap'))]


def end_checks(ex, s2, kind, val, inputs, N, J, where='end', in_ty='T', out_ty=None):
    """generic end-of-scenario obligations for an operation that consumes `inputs` (arrays) and builds outputs"""
    inA = ULT(J, N)
    if kind == 'ret':
        out = val
        if isinstance(out, BoxVal):
            out = out.ptr.block.arr
        if isinstance(out, Arr):
            ex.require(s2, z3.Implies(inA, ex.stat(s2, out) == LIVE), 'returned array has a slot that is not initialised', where)
        for A in inputs:
            # (UNINIT: the slot's value was moved out wholesale, e.g. an array mapped in place and returned as the output)
            ex.require(s2, z3.Implies(inA, z3.Or(s2.status[A] == EXTERN, s2.status[A] == DROPPED, s2.status[A] == UNINIT)), 'input element neither handed to the closure nor dropped', where)
        if ex.order:
            for A in inputs:
                ex.require(s2, z3.Implies(inA, s2.status[A] == EXTERN), 'an input element was not passed to the caller\'s function (not applied once per index)', where)
            ex.require(s2, (bv(0) if s2.vid is None else s2.vid) == N, 'the caller\'s function was not called exactly N times', where)
    else:
        if ex.order:
            ex.require(s2, z3.BoolVal('own_panic' not in s2.notes), 'the operation panics on its own although no caller-supplied code panicked', where + '(unwind)')
        # an element without drop glue that is abandoned on unwind is not a leak: where the element type of an array is known and the code
        # asks `needs_drop` of it, the leak obligation is stated for element types that need dropping
        nd_out = nd_all(ex)
        for ai_, A in enumerate(inputs):
            ty_ = in_ty[ai_] if isinstance(in_ty, (list, tuple)) else in_ty      # the type parameter that names THIS input's element type in the body
            nd_in = ex.needs_drop.get(ty_, z3.BoolVal(True)) if ty_ else z3.BoolVal(True)
            ex.require(s2, z3.Implies(z3.And(inA, nd_in), z3.Or(s2.status[A] == EXTERN, s2.status[A] == DROPPED)), 'input element leaked on unwind', where + '(unwind)')
        for arr, stt in out_arrays(s2):
            ex.require(s2, z3.Implies(z3.And(inA, nd_out), z3.Or(stt == UNINIT, stt == DROPPED)), 'already-built output element leaked on unwind', where + '(unwind)')
    if ex.V is not None:
        ex.require(s2, ex.stat(s2, ex.V) != HELD, 'value produced by caller code lost (neither stored, dropped nor returned)', where)
    for blk, owner in s2.blocks.items():
        ok = (owner == 'freed') or (owner == 'boxed' and kind == 'ret')
        ex.require(s2, z3.BoolVal(ok), 'heap block neither freed nor owned by the returned Box when the operation ends (leak)', where + '(%s)' % kind)


@guarded
def op_generate(fns, src, nmax, boxed=False, name=None):
    N, J = syms('N', 'J')
    res = Result(name or ('box_generate' if boxed else 'generate'), ['C04', 'C16'] if boxed else ['C04'],
                 'N <= %d symbolic (for_each unrolled, unwinding assertion on), the generator may panic at every call' % nmax)
    ex = Exec(fns, src, J, N, nmax=nmax)
    ex.V = Arr('F', bv(2 ** 63))
    st = new_state()
    bounded(ex, st, N, nmax)
    st.pc.append((ex.SZ == 0) == z3.Or(N == 0, ex.S == 0))
    if boxed:
        fn = ex.pick(ex.index[('GenericSequence', 'Box', 'generate')])
    else:
        fn = ex.pick(ex.index[('GenericSequence', 'GenericArray', 'generate')])
    t0, paths, unw = time.time(), 0, 0
    for (s2, kind, val) in ex.run_fn(st, fn, [Opaque('F')]):
        paths += 1
        unw += kind == 'unwind'
        end_checks(ex, s2, kind, val, [], N, J, out_ty='T')
    return finish(res, ex, t0, paths, unw)


@guarded
def op_map(fns, src, nmax, name=None):
    N, J = syms('N', 'J')
    res = Result(name or 'map(owned)', ['C04'], 'N <= %d, the closure may panic at every call' % nmax)
    ex = Exec(fns, src, J, N, nmax=nmax)
    ex.V = Arr('F', bv(2 ** 63))
    A = Arr('A', N)
    st = new_state()
    bounded(ex, st, N, nmax)
    st.status[A] = LIVE
    fn = ex.pick(ex.index[('FunctionalSequence', 'GenericArray', 'map')])
    t0, paths, unw = time.time(), 0, 0
    for (s2, kind, val) in ex.run_fn(st, fn, [A, Opaque('F')]):
        paths += 1
        unw += kind == 'unwind'
        end_checks(ex, s2, kind, val, [A], N, J, out_ty='U')
    return finish(res, ex, t0, paths, unw)


@guarded
def op_fold(fns, src, nmax, name=None):
    N, J = syms('N', 'J')
    res = Result(name or 'fold(owned)', ['C04'], 'N <= %d, the closure may panic at every call' % nmax)
    ex = Exec(fns, src, J, N, nmax=nmax)
    ex.V = Arr('F', bv(2 ** 63))
    A = Arr('A', N)
    st = new_state()
    bounded(ex, st, N, nmax)
    st.status[A] = LIVE
    fn = ex.pick(ex.index[('FunctionalSequence', 'GenericArray', 'fold')])
    t0, paths, unw = time.time(), 0, 0
    for (s2, kind, val) in ex.run_fn(st, fn, [A, Opaque('init'), Opaque('F')]):
        paths += 1
        unw += kind == 'unwind'
        if kind == 'ret':
            ex.ev_extern(s2, val)
        end_checks(ex, s2, kind, None, [A], N, J)
    return finish(res, ex, t0, paths, unw)


@guarded
def op_zip_owned(fns, src, nmax, name=None):
    """GenericArray::inverted_zip (owned x owned), both needs_drop branches (needs_drop symbolic)"""
    N, J = syms('N', 'J')
    res = Result(name or 'zip(owned,owned)', ['C04'], 'N <= %d, needs_drop::<T>() / needs_drop::<B>() symbolic, the closure may panic at every call' % nmax)
    ex = Exec(fns, src, J, N, nmax=nmax)
    ex.V = Arr('F', bv(2 ** 63))
    A, Bv = Arr('Right', N), Arr('Left', N)
    st = new_state()
    bounded(ex, st, N, nmax)
    st.status[A] = LIVE
    st.status[Bv] = LIVE
    fn = ex.pick(ex.index[('GenericSequence', 'GenericArray', 'inverted_zip')])
    t0, paths, unw = time.time(), 0, 0
    for (s2, kind, val) in ex.run_fn(st, fn, [A, Bv, Opaque('F')]):
        paths += 1
        unw += kind == 'unwind'
        nd = z3.Or(ex.needs_drop.get('T', z3.BoolVal(True)), ex.needs_drop.get('B', z3.BoolVal(True)))
        if kind == 'ret':
            end_checks(ex, s2, kind, val, [A, Bv], N, J, in_ty=['T', 'B'])
        else:
            # the ledger only matters when some element type needs drop (the other branch is deliberately ledger-free)
            if ex.feasible(s2, nd):
                s2.pc.append(nd)
                end_checks(ex, s2, kind, val, [A, Bv], N, J, in_ty=['T', 'B'])
    return finish(res, ex, t0, paths, unw)


@guarded
def iter_clone(fns, src, nmax, name=None):
    N, I, B, J = syms('N', 'index', 'index_back', 'J')
    res = Result(name or 'iter.clone', ['C04', 'C06', 'C03'], 'N <= %d, every position, T::clone may panic at every call' % nmax)
    ex = Exec(fns, src, J, N, nmax=nmax)
    ex.V = Arr('Cl', bv(2 ** 63))
    A = Arr('A', N)
    st = new_state()
    bounded(ex, st, N, nmax)
    it = iter_state(ex, st, A, I, B, N, J)
    fn = ex.pick(ex.index[('Clone', 'GenericArrayIter', 'clone')])
    t0, paths, unw = time.time(), 0, 0
    for (s2, kind, val) in ex.run_fn(st, fn, [Ref(it, ())]):
        paths += 1
        unw += kind == 'unwind'
        if kind == 'ret':
            C = val[0]
            ex.require(s2, val[2] - val[1] == B - I, 'clone has a different number of remaining elements', 'post')
            ex.require(s2, z3.And(ULE(val[1], val[2]), ULE(val[2], N)), 'clone violates index <= index_back <= N', 'post')
            ex.require(s2, z3.Implies(ULT(J, N), (ex.stat(s2, C) == LIVE) == z3.And(ULE(val[1], J), ULT(J, val[2]))),
                       'clone claims a slot that is not initialised, or holds an initialised slot it does not claim', 'post')
        else:
            for C, stt in out_arrays(s2):
                ex.require(s2, z3.Implies(z3.And(ULT(J, N), nd_T(ex)), stt != LIVE), 'clones already written are leaked when a later T::clone panics', 'end(unwind)')
        ex.require(s2, z3.Implies(z3.And(ULE(I, J), ULT(J, B)), s2.status[A] == LIVE), 'original iterator disturbed by clone', 'end')
        cur = s2.get(it, ())
        ex.require(s2, z3.And(cur[1] == I, cur[2] == B), 'original iterator position changed by clone', 'end')
        ex.require(s2, ex.stat(s2, ex.V) != HELD, 'a cloned value was lost', 'end')
    return finish(res, ex, t0, paths, unw)


@guarded
def iter_clone_from(fns, src, nmax, name=None):
    """`dst.clone_from(&src)` on two by-value iterators at arbitrary positions, if the crate overrides it (the trait default is
    `*self = source.clone()`: scenario iter.clone plus the iterator's Drop). T::clone and the destructors of the items `dst` still holds
    may panic; afterwards the owner drops `dst` - nothing may be dropped twice, and after a normal return `dst` holds exactly as many
    items as `src`, which is untouched."""
    N, I, B, I2, B2, J = syms('N', 'index', 'index_back', 'src_index', 'src_index_back', 'J')
    res = Result(name or 'iter.clone_from', ['C04', 'C05', 'C06'], 'N <= %d, every position of both iterators, T::clone and element destructors may panic' % nmax)
    ex = Exec(fns, src, J, N, nmax=nmax)
    ex.V = Arr('Cl', bv(2 ** 63))
    t0, paths, unw = time.time(), 0, 0
    key = ('Clone', 'GenericArrayIter', 'clone_from')
    if key not in ex.index:
        res.bounds += '; the crate does not override clone_from for the iterator (trait default: `*self = source.clone()`, see iter.clone and iter.drop)'
        return finish(res, ex, t0, 0, 0)
    A, S = Arr('A', N), Arr('Source', N)
    st = new_state()
    bounded(ex, st, N, nmax)
    dst = iter_state(ex, st, A, I, B, N, J)
    st.pc += [ULE(I2, B2), ULE(B2, N)]
    st.status[S] = z3.If(z3.And(ULE(I2, J), ULT(J, B2)), LIVE, EXTERN)
    srci = st.new_cell({0: S, 1: I2, 2: B2})
    fn = ex.pick(ex.index[key])
    for (s2, kind, val) in ex.run_fn(st, fn, [Ref(dst, ()), Ref(srci, ())]):
        paths += 1
        unw += kind == 'unwind'
        cur, cs = s2.get(dst, ()), s2.get(srci, ())
        ex.require(s2, z3.And(cs[1] == I2, cs[2] == B2), 'clone_from changed the position of its source', 'end(%s)' % kind)
        ex.require(s2, z3.Implies(z3.And(ULE(I2, J), ULT(J, B2)), ex.stat(s2, S) == LIVE), 'clone_from consumed or dropped an element of its source', 'end(%s)' % kind)
        if kind == 'ret':
            ex.require(s2, z3.And(ULE(cur[1], cur[2]), ULE(cur[2], N)), 'iterator invariant index <= index_back <= N broken', 'post')
            ex.require(s2, cur[2] - cur[1] == B2 - I2, 'after clone_from the receiver has a different number of remaining elements than the source', 'post')
        if kind == 'unwind':
            ex.require(s2, z3.BoolVal('own_panic' not in s2.notes), 'clone_from panics on its own although neither T::clone nor a destructor panicked', 'end(unwind)')
        s2.events.append('[%s] owner drops the receiver' % kind)
        for (s3, k3, _) in ex.run_fn(s2, ex.pick(ex.index[('Drop', 'GenericArrayIter', 'drop')]), [Ref(dst, ())]):
            if kind == 'ret' and k3 == 'ret':
                for arr, stt in s3.status.items():
                    if arr is not S and arr is not ex.V:
                        ex.require(s3, z3.Implies(z3.And(ULT(J, N), nd_T(ex)), stt != LIVE), 'an element of the receiver is still alive when everything is gone (leak)', 'end of scenario')
                ex.require(s3, ex.stat(s3, ex.V) != HELD, 'a clone was lost (neither stored nor dropped)', 'end of scenario')
    return finish(res, ex, t0, paths, unw)


@guarded
def box_ops(fns, src, nmax, which='map', name=None):
    """`Box<GenericArray<T, N>>::map / fold` if the crate has its own body for the boxed receiver (the trait defaults go through
    `alloc::vec::IntoIter`, std code that is trusted to drop what it still holds): the source block and its elements are accounted for on
    every return and unwind path - the closure may panic at every call; needs_drop::<T>() symbolic."""
    N, J = syms('N', 'J')
    res = Result(name or 'box.' + which, ['C04', 'C16'], 'N <= %d, the closure may panic at every call' % nmax)
    ex = Exec(fns, src, J, N, nmax=nmax)
    ex.V = Arr('F', bv(2 ** 63))
    t0, paths, unw = time.time(), 0, 0
    key = ('FunctionalSequence', 'Box', which)
    if key not in ex.index:
        res.bounds += '; the crate has no own %s for Box<GenericArray> (trait default over alloc::vec::IntoIter)' % which
        return finish(res, ex, t0, 0, 0)
    A = Arr('BoxedSrc', N)
    st = new_state()
    bounded(ex, st, N, nmax)
    st.pc.append((ex.SZ == 0) == z3.Or(N == 0, ex.S == 0))
    st.status[A] = LIVE
    blk = Block('H0', A)
    st.blocks[blk] = 'boxed'
    arg = BoxVal(BlockPtr(blk), init=True)
    fn = ex.pick(ex.index[key])
    args = [arg, Opaque('F')] if which == 'map' else [arg, Opaque('init'), Opaque('F')]
    for (s2, kind, val) in ex.run_fn(st, fn, args):
        paths += 1
        unw += kind == 'unwind'
        if kind == 'ret' and which != 'map':
            ex.ev_extern(s2, val)
        inA = ULT(J, N)
        ex.require(s2, z3.BoolVal(s2.blocks.get(blk) == 'freed'), 'the heap block of the boxed source is never freed (leak)', 'end(%s)' % kind)
        nd = ex.needs_drop.get('T', z3.BoolVal(True))
        if kind == 'ret' or ex.feasible(s2, nd):
            if kind != 'ret':
                s2.pc.append(nd)      # elements without drop glue may be abandoned on unwind; the block may not
            ex.require(s2, z3.Implies(inA, z3.Or(s2.status[A] == EXTERN, s2.status[A] == DROPPED)), 'element of the boxed source neither handed to the closure nor dropped (%s)' % ('leaked on unwind' if kind == 'unwind' else 'lost'), 'end(%s)' % kind)
        end_checks(ex, s2, kind, val if which == 'map' else None, [], N, J)
    return finish(res, ex, t0, paths, unw)


@guarded
def guard_drop(fns, src, nmax, which='ArrayConsumer', name=None):
    """Drop of the three guards at an arbitrary position p <= N: ALL N (loop-free); a destructor may panic"""
    N, P, J = syms('N', 'position', 'J')
    res = Result(name or 'drop(%s)' % which, ['C04', 'C05'], 'all 64-bit N, position <= N; loop-free')
    ex = Exec(fns, src, J, N, nmax=nmax)
    A = Arr('A', N)
    st = new_state()
    st.pc.append(ULE(P, N))
    if which == 'ArrayConsumer':
        st.status[A] = z3.If(UGE(J, P), LIVE, EXTERN)       # [position, N) still owned
        g = st.new_cell({0: A, 1: P})
    elif which == 'ArrayBuilder':
        st.status[A] = z3.If(ULT(J, P), LIVE, UNINIT)       # [0, position) built
        g = st.new_cell({0: A, 1: P})
    else:
        st.status[A] = z3.If(ULT(J, P), LIVE, UNINIT)
        g = st.new_cell({0: ArrRef(A), 1: P})
    fn = ex.pick(ex.index[('Drop', which, 'drop')])
    t0, paths, unw = time.time(), 0, 0
    for (s2, kind, val) in ex.run_fn(st, fn, [Ref(g, ())]):
        paths += 1
        unw += kind == 'unwind'
        if kind == 'ret':
            ex.require(s2, z3.Implies(z3.And(ULT(J, N), nd_T(ex)), s2.status[A] != LIVE), 'guard left an element it owns alive (leak)', 'end')
    return finish(res, ex, t0, paths, unw)


@guarded
def op_try_from_iter(fns, src, nmax, name=None, boxed=False, entry=None):
    """try_from_iter / try_boxed_from_iter with a caller-supplied source that may panic in next() or size_hint() at every call"""
    N, J, C, LO, HI = syms('N', 'J', 'count', 'hint_lo', 'hint_hi')
    res = Result(name or 'try_from_iter', ['C04', 'C07'], 'N <= %d, source yields count <= N+2 items, size_hint unconstrained, next()/size_hint() may panic at every call' % nmax)
    ex = Exec(fns, src, J, N, nmax=nmax + 2)
    ex.V = Arr('Items', bv(2 ** 63))
    st = new_state()
    bounded(ex, st, N, nmax)
    st.pc.append(ULE(C, N + 2))
    has_hi = z3.Bool('hint_has_hi')
    src_it = {'kind': 'source', 'count': C, 'yielded': bv(0), 'ended': z3.BoolVal(False),
              'hint': {0: LO, 1: Enum('Some', {0: HI})}}
    fn = ex.find_fn(entry or ('GenericArray::<T, N>::try_boxed_from_iter' if boxed else 'GenericArray::<T, N>::try_from_iter'))
    if fn is None:
        raise NotImplementedError('function not found')
    t0, paths, unw = time.time(), 0, 0
    # Option<usize> upper bound: two runs (Some / None)
    for hi_variant in ('Some', 'None'):
        s0 = st.clone()
        it = dict(src_it)
        it['hint'] = {0: LO, 1: Enum('Some', {0: HI}) if hi_variant == 'Some' else Enum('None', {})}
        for (s2, kind, val) in ex.run_fn(s0, fn, [it]):
            paths += 1
            unw += kind == 'unwind'
            inA = ULT(J, N)
            if entry and kind == 'ret' and not (isinstance(val, Enum) and val.variant in ('Ok', 'Err')):
                val = Enum('Ok', {0: val})      # infallible entry point (FromIterator::from_iter): a wrong count ends in a panic instead of Err
            for blk, owner in s2.blocks.items():
                okb = (owner == 'freed') or (owner == 'boxed' and kind == 'ret' and val.variant == 'Ok')
                ex.require(s2, z3.BoolVal(okb), 'heap block neither freed nor owned by the returned Box when the operation ends (leak)', 'end(%s)' % kind)
            if kind == 'ret':
                if val.variant == 'Ok':
                    oarr = val.fields[0]
                    if isinstance(oarr, BoxVal):
                        if not isinstance(oarr.ptr, BlockPtr):
                            raise NotImplementedError('returned Box does not own a modelled heap block')
                        oarr = oarr.ptr.block.arr
                    ex.require(s2, z3.Implies(inA, ex.stat(s2, oarr) == LIVE), 'Ok array has a slot that is not initialised', 'end')
                    ex.require(s2, C == N, 'Ok although the source did not yield exactly N items', 'end')
                    ex.ev_extern(s2, {})
                else:
                    for arr, stt in out_arrays(s2):
                        ex.require(s2, z3.Implies(z3.And(inA, nd_T(ex)), z3.Or(stt == UNINIT, stt == DROPPED)), 'items already stored are leaked on LengthError', 'end')
                    truthful = z3.And(ULE(LO, C), ULE(C, HI)) if hi_variant == 'Some' else ULE(LO, C)
                    ex.require(s2, z3.Not(z3.And(C == N, truthful)), 'LengthError although the source yields exactly N items and its size hint is truthful', 'end')
            else:
                for arr, stt in out_arrays(s2):
                    ex.require(s2, z3.Implies(z3.And(inA, nd_T(ex)), z3.Or(stt == UNINIT, stt == DROPPED)), 'items already stored are leaked when the source panics', 'end(unwind)')
            # items pulled from the source and not stored in a returned array must have been dropped
            okret = kind == 'ret' and val.variant == 'Ok'
            ex.require(s2, z3.Or(ex.stat(s2, ex.V) == UNINIT, ex.stat(s2, ex.V) == DROPPED, ex.stat(s2, ex.V) == STORED),
                       'an item pulled from the source was lost (neither stored nor dropped)', 'end(%s)' % kind)
    return finish(res, ex, t0, paths, unw)


# ----------------------------------------------------------------------------------------------- C02 / C10 / C18: pointer arithmetic
def ptr_exec(fns, src, nmax, ctfe):
    N, J = syms('N', 'J')
    ex = Exec(fns, src, J, N, nmax=nmax, ctfe=ctfe)
    return ex, N, J


@guarded
def len_iff(fns, src, nmax, which='try_from_slice', ctfe=False, name=None):
    """from_slice / try_from_slice / from_mut_slice / try_from_mut_slice / TryFrom: the reinterpreting cast is reached iff L == N
    (ALL 64-bit N and L); otherwise panic / Err; the result points at the source's first element."""
    ex, N, J = ptr_exec(fns, src, nmax, ctfe)
    L, = syms('L')
    res = Result(name or which, ['C02', 'C18'] if ctfe else ['C02'], 'all 64-bit N and slice lengths L%s; loop-free' % (' (MIR FOR CTFE body: what the const evaluator interprets)' if ctfe else ''))
    S = Arr('S', L)
    st = new_state()
    if which.startswith('TryFrom'):
        fn = ex.pick(ex.index[('TryFrom', '&mut GenericArray' if 'mut' in which else '&GenericArray', 'try_from')])
    else:
        fn = ex.find_fn('GenericArray::<T, N>::' + which)
    if fn is None:
        raise NotImplementedError('function not found: ' + which)
    fallible = which.startswith('try') or which.startswith('TryFrom')
    t0, paths, unw = time.time(), 0, 0
    seen_ok = seen_rej = False
    for (s2, kind, val) in ex.run_fn(st, fn, [Slice(S, bv(0), L)]):
        paths += 1
        unw += kind == 'unwind'
        if kind == 'unwind':
            seen_rej = True
            ex.require(s2, L != N, 'panics although the slice has exactly N elements', 'panic path')
            ex.require(s2, z3.BoolVal(not fallible), 'the fallible form panics instead of returning LengthError', 'panic path')
            continue
        r = val
        if fallible:
            if r.variant == 'Err':
                seen_rej = True
                ex.require(s2, L != N, 'LengthError although the slice has exactly N elements', 'Err path')
                continue
            r = r.fields[0]
        seen_ok = True
        ex.require(s2, L == N, 'slice of the wrong length reinterpreted as GenericArray<T, N>', 'Ok path')
        ok_ptr = isinstance(r, ElemPtr) and r.arr is S
        ex.require(s2, z3.BoolVal(ok_ptr), 'result does not point into the source slice', 'Ok path')
        if ok_ptr:
            ex.require(s2, r.idx == 0, 'result does not start at the source slice\'s first element', 'Ok path')
    if not (seen_ok and seen_rej):
        res.reason = 'vacuity: accepting path seen=%s rejecting path seen=%s' % (seen_ok, seen_rej)
        res.verdict = 'inconclusive'
    return finish(res, ex, t0, paths, unw)


@guarded
def views(fns, src, nmax, which='as_slice', ctfe=False, name=None):
    """every borrowed view is (address of self, N)"""
    ex, N, J = ptr_exec(fns, src, nmax, ctfe)
    res = Result(name or which, ['C02', 'C01'], 'all 64-bit N; loop-free')
    A = Arr('A', N)
    st = new_state()
    key = {'as_slice': None, 'as_mut_slice': None, 'deref': ('Deref', 'GenericArray', 'deref'), 'deref_mut': ('DerefMut', 'GenericArray', 'deref_mut'),
           'as_ref': ('AsRef', 'GenericArray', 'as_ref'), 'as_mut': ('AsMut', 'GenericArray', 'as_mut'),
           'borrow': ('Borrow', 'GenericArray', 'borrow'), 'borrow_mut': ('BorrowMut', 'GenericArray', 'borrow_mut'),
           'into_iter_ref': ('IntoIterator', '&GenericArray', 'into_iter'), 'into_iter_mut': ('IntoIterator', '&mut GenericArray', 'into_iter')}[which]
    fn = ex.find_fn('GenericArray::<T, N>::' + which) if key is None else ex.pick(ex.index[key])
    t0, paths, unw = time.time(), 0, 0
    for (s2, kind, val) in ex.run_fn(st, fn, [ArrRef(A)]):
        paths += 1
        unw += kind == 'unwind'
        ex.require(s2, z3.BoolVal(kind == 'ret'), 'a borrowed view can panic', 'end')
        if kind != 'ret':
            continue
        if isinstance(val, dict) and val.get('kind') == 'slice':
            ex.require(s2, z3.And(z3.BoolVal(val['arr'] is A), val['pos'] == 0, val['end'] == N), 'by-reference iteration does not cover exactly elements 0..N of the array', 'end')
        elif isinstance(val, Slice):
            ex.require(s2, z3.And(z3.BoolVal(val.arr is A), val.start == 0, val.end == N), 'view is not (address of the array, N elements)', 'end')
        else:
            ex.require(s2, z3.BoolVal(False), 'view is not a slice of the array', 'end')
    return finish(res, ex, t0, paths, unw)


@guarded
def chunks(fns, src, nmax, which='chunks_from_slice', ctfe=False, name=None):
    """chunks_from_slice(_mut): floor(L/N) chunks + L mod N remainder covering the source exactly; N = 0: empty -> two empty results,
    non-empty -> panic. ALL 64-bit N, L."""
    ex, N, J = ptr_exec(fns, src, nmax, ctfe)
    L, = syms('L')
    res = Result(name or which, ['C10', 'C18'] if ctfe else ['C10'], 'all 64-bit N and slice lengths L%s; division via fresh quotient/remainder and the division lemma' % (' (MIR FOR CTFE body)' if ctfe else ''))
    S = Arr('S', L)
    st = new_state()
    # size_of::<GenericArray<T, N>>() = N * size_of::<T>() (C01); element sizes up to 2^32 keep the product in range
    st.pc += [ULE(ex.S, bv(2 ** 32)), ex.SZ == N * ex.S] if is_int() else [(ex.SZ == 0) == z3.Or(N == 0, ex.S == 0)]
    fn = ex.find_fn('GenericArray::<T, N>::' + which)
    t0, paths, unw = time.time(), 0, 0
    seen = set()
    for (s2, kind, val) in ex.run_fn(st, fn, [Slice(S, bv(0), L)]):
        paths += 1
        unw += kind == 'unwind'
        if kind == 'unwind':
            seen.add('panic')
            ex.require(s2, z3.And(N == 0, L != 0), 'panics for an input other than (N = 0, non-empty slice)', 'panic path')
            continue
        c, r = val[0], val[1]
        if ex.feasible(s2, N == 0):
            s0 = s2.clone()
            s0.pc.append(N == 0)
            seen.add('n0')
            ex.require(s0, L == 0, 'N = 0 with a non-empty slice must panic', 'N=0 path')
            ex.require(s0, z3.And(c.end == c.start, r.end == r.start), 'N = 0 with an empty slice must give two empty results', 'N=0 path')
        if ex.feasible(s2, N != 0):
            s1 = s2.clone()
            s1.pc.append(N != 0)
            seen.add('npos')
            ok = c.arr is S and r.arr is S and c.stride is not None
            ex.require(s1, z3.BoolVal(ok), 'results are not views of the source slice', 'N>0 path')
            if ok:
                q = mkint('qspec')
                rr = mkint('rspec')
                s1.pc += list(RANGE)
                s1.pc += [ULT(rr, N), MULOK(q, N), ADDOK(q * N, rr), q * N + rr == L]
                ex.require(s1, c.start == 0, 'chunks do not start at the source', 'N>0 path')
                ex.require(s1, c.end - c.start == q * N, 'number of chunks is not floor(L / N)', 'N>0 path')
                ex.require(s1, r.start == c.end, 'remainder is not adjacent to the chunks (gap or overlap)', 'N>0 path')
                ex.require(s1, r.end - r.start == rr, 'remainder length is not L mod N', 'N>0 path')
                ex.require(s1, r.end == L, 'parts do not cover the source exactly', 'N>0 path')
    if not {'panic', 'n0', 'npos'} <= seen:
        res.verdict, res.reason = 'inconclusive', 'vacuity: paths seen %s' % sorted(seen)
    return finish(res, ex, t0, paths, unw)


@guarded
def unchunk(fns, src, nmax, which='slice_from_chunks', ctfe=False, name=None):
    """slice_from_chunks(_mut): the inverse - same start, len * N elements (for a chunk slice that came from chunking: len * N <= usize::MAX)"""
    ex, N, J = ptr_exec(fns, src, nmax, ctfe)
    L, Q = syms('L', 'chunks')
    res = Result(name or which, ['C10', 'C18'] if ctfe else ['C10'], 'all 64-bit N, chunk counts with chunks * N <= L (a valid chunk slice)')
    S = Arr('S', L)
    st = new_state()
    st.pc += [MULOK(Q, N), ULE(Q * N, L)]
    fn = ex.find_fn('GenericArray::<T, N>::' + which)
    t0, paths, unw = time.time(), 0, 0
    for (s2, kind, val) in ex.run_fn(st, fn, [Slice(S, bv(0), Q * N, stride=N)]):
        paths += 1
        unw += kind == 'unwind'
        ex.require(s2, z3.BoolVal(kind == 'ret'), 'slice_from_chunks can panic on a valid chunk slice', 'end')
        if kind == 'ret':
            ok = isinstance(val, Slice) and val.arr is S
            ex.require(s2, z3.BoolVal(ok), 'result is not a view of the same storage', 'end')
            if ok:
                ex.require(s2, z3.And(val.start == 0, val.end == Q * N), 'flattened slice is not (same start, chunks * N elements)', 'end')
    return finish(res, ex, t0, paths, unw)


# ----------------------------------------------------------------------------------------------- C13: delegation
@guarded
def delegation(fns, src, nmax, which='eq', name=None):
    """eq / partial_cmp / cmp / hash / fmt return exactly the slice's method applied to as_slice(self)[, as_slice(other)] and the caller's own
    Hasher / Formatter. The slice method is left uninterpreted, so agreement holds for ALL N, ALL T and ALL hasher / formatter states."""
    N, J = syms('N', 'J')
    res = Result(name or 'delegation.' + which, ['C13'], 'all 64-bit N, all element types, all hasher/formatter states (callee uninterpreted); loop-free')
    ex = Exec(fns, src, J, N, nmax=nmax)
    A, B = Arr('A', N), Arr('B', N)
    st = new_state()
    key = {'eq': ('PartialEq', 'GenericArray', 'eq'), 'partial_cmp': ('PartialOrd', 'GenericArray', 'partial_cmp'), 'cmp': ('Ord', 'GenericArray', 'cmp'),
           'hash': ('Hash', 'GenericArray', 'hash'), 'fmt': ('Debug', 'GenericArray', 'fmt')}[which]
    fn = ex.pick(ex.index[key])
    state = Opaque('caller state (Hasher / Formatter)')
    binary = which in ('eq', 'partial_cmp', 'cmp')
    args = [ArrRef(A), ArrRef(B)] if binary else [ArrRef(A), state]
    t0, paths, unw = time.time(), 0, 0
    for (s2, kind, val) in ex.run_fn(st, fn, args):
        paths += 1
        unw += kind == 'unwind'
        calls = s2.notes.get('delegated', [])
        ex.require(s2, z3.BoolVal(kind == 'ret' and len(calls) == 1), 'not a single delegation to the slice method', 'end')
        if kind != 'ret' or len(calls) != 1:
            continue
        what, cargs, r = calls[0]
        want = {'eq': 'PartialEq::eq', 'partial_cmp': 'PartialOrd::partial_cmp', 'cmp': 'Ord::cmp', 'hash': 'Hash::hash', 'fmt': 'Debug::fmt'}[which]
        ex.require(s2, z3.BoolVal(what == want), 'delegates to a different slice method (%s)' % what, 'end')
        a0 = cargs[0]
        ok0 = isinstance(a0, Slice) and a0.arr is A
        ex.require(s2, z3.BoolVal(ok0), 'first operand is not the slice of self', 'end')
        if ok0:
            ex.require(s2, z3.And(a0.start == 0, a0.end == N), 'first operand is not all N elements of self', 'end')
        if binary:
            a1 = cargs[1]
            ok1 = isinstance(a1, Slice) and a1.arr is B
            ex.require(s2, z3.BoolVal(ok1), 'second operand is not the slice of other (operands swapped or wrong)', 'end')
            if ok1:
                ex.require(s2, z3.And(a1.start == 0, a1.end == N), 'second operand is not all N elements of other', 'end')
        else:
            ex.require(s2, z3.BoolVal(cargs[1] is state), 'the caller\'s Hasher / Formatter is not passed through unchanged', 'end')
        ex.require(s2, z3.BoolVal(val is r or which == 'hash'), 'returns something other than the slice method\'s result', 'end')
    return finish(res, ex, t0, paths, unw)


@guarded
def iter_debug(fns, src, nmax, name=None):
    """Debug for GenericArrayIter is debug_tuple("GenericArrayIter").field(&as_slice()).finish() on the caller's formatter"""
    N, I, B, J = syms('N', 'index', 'index_back', 'J')
    res = Result(name or 'delegation.iter_fmt', ['C06', 'C13'], 'all 64-bit N, every position, all formatter states (core::fmt builders uninterpreted)')
    ex = Exec(fns, src, J, N, nmax=nmax)
    A = Arr('A', N)
    st = new_state()
    it = iter_state(ex, st, A, I, B, N, J)
    fm = Opaque('caller formatter')
    fn = ex.pick(ex.index[('Debug', 'GenericArrayIter', 'fmt')])
    t0, paths, unw = time.time(), 0, 0
    for (s2, kind, val) in ex.run_fn(st, fn, [Ref(it, ()), fm]):
        paths += 1
        unw += kind == 'unwind'
        calls = s2.notes.get('fmt', [])
        kinds = [c[0] for c in calls]
        ex.require(s2, z3.BoolVal(kind == 'ret' and kinds == ['debug_tuple', 'field', 'finish']), 'Debug is not debug_tuple(..).field(..).finish()', 'end')
        if kind != 'ret' or kinds != ['debug_tuple', 'field', 'finish']:
            continue
        ex.require(s2, z3.BoolVal(calls[0][1][0] is fm), 'not the caller\'s formatter', 'end')
        nm = calls[0][1][1]
        ex.require(s2, z3.BoolVal(isinstance(nm, Opaque) and 'GenericArrayIter' in nm.tag), 'tuple name is not "GenericArrayIter"', 'end')
        fld = calls[1][1][1]
        okf = isinstance(fld, Slice) and fld.arr is A
        ex.require(s2, z3.BoolVal(okf), 'the field is not the iterator\'s remaining slice', 'end')
        if okf:
            ex.require(s2, z3.And(fld.start == I, fld.end == B), 'Debug shows something other than exactly the remaining elements', 'end')
        ex.require(s2, z3.BoolVal(val is calls[2][2]), 'returns something other than finish()\'s result', 'end')
    return finish(res, ex, t0, paths, unw)


# ----------------------------------------------------------------------------------------------- C09: out-of-bounds remove
@guarded
def remove_oob(fns, src, nmax, which='remove', name=None):
    """remove / swap_remove with idx >= N: never returns, and on the panic's unwind edge the receiver is dropped exactly once. ALL N, idx."""
    N, IDX, J = syms('N', 'idx', 'J')
    res = Result(name or which + '.oob', ['C09', 'C03'], 'all 64-bit N and idx >= N; loop-free')
    ex = Exec(fns, src, J, N, nmax=nmax)
    ex.self_binding = 'GenericArray'
    A = Arr('A', N)
    st = new_state()
    st.pc.append(UGE(IDX, N))
    st.pc.append(UGE(N, bv(1)))      # `N: Sub<B1>`: the Remove impl only exists for N >= 1
    st.status[A] = LIVE
    # the impl's own method if it overrides the trait-provided one
    fn = ex.pick(ex.index.get(('Remove', 'GenericArray', which)) or ex.defaults[('Remove', which)])
    t0, paths, unw = time.time(), 0, 0
    for (s2, kind, val) in ex.run_fn(st, fn, [A, IDX]):
        paths += 1
        unw += kind == 'unwind'
        ex.require(s2, z3.BoolVal(kind == 'unwind'), '%s(idx >= N) returned instead of panicking' % which, 'end')
        if kind == 'unwind':
            ex.require(s2, z3.Implies(z3.And(ULT(J, N), nd_T(ex)), s2.status[A] == DROPPED), 'the receiver\'s elements are not dropped exactly once on the out-of-bounds panic path (leak)', 'end(unwind)')
    if paths == 0:
        res.verdict, res.reason = 'inconclusive', 'vacuity: no path'
    return finish(res, ex, t0, paths, unw)


# ----------------------------------------------------------------------------------------------- C04: by-reference receivers, Clone
@guarded
def ref_map(fns, src, nmax, which='map', name=None):
    """trait-default map body with a by-reference receiver (`(&a).map(f)`, which is also `Clone for GenericArray` = `self.map(Clone::clone)`):
    the source array is only borrowed; the closure / T::clone may panic at every call"""
    N, J = syms('N', 'J')
    res = Result(name or 'ref.' + which, ['C04', 'C08'], 'N <= %d, the closure / T::clone may panic at every call' % nmax)
    ex = Exec(fns, src, J, N, nmax=nmax)
    ex.V = Arr('F', bv(2 ** 63))
    A = Arr('A', N)
    st = new_state()
    bounded(ex, st, N, nmax)
    st.status[A] = LIVE
    if which == 'clone':
        fn = ex.pick(ex.index[('Clone', 'GenericArray', 'clone')])
        args = [ArrRef(A)]
    else:
        ex.self_binding = '&GenericArray'
        fn = ex.pick(ex.defaults[('FunctionalSequence', 'map')])
        args = [ArrRef(A), Opaque('F')]
    t0, paths, unw = time.time(), 0, 0
    for (s2, kind, val) in ex.run_fn(st, fn, args):
        paths += 1
        unw += kind == 'unwind'
        inA = ULT(J, N)
        ex.require(s2, z3.Implies(inA, s2.status[A] == LIVE), 'a borrowed source element was moved out or dropped', 'end')
        if kind == 'ret':
            ex.require(s2, z3.Implies(inA, ex.stat(s2, val) == LIVE), 'returned array has a slot that is not initialised', 'end')
        else:
            for arr, stt in out_arrays(s2):
                ex.require(s2, z3.Implies(z3.And(inA, nd_all(ex)), z3.Or(stt == UNINIT, stt == DROPPED)), 'already-built output element leaked on unwind', 'end(unwind)')
        ex.require(s2, ex.stat(s2, ex.V) != HELD, 'value produced by caller code lost (neither stored, dropped nor returned)', 'end')
    return finish(res, ex, t0, paths, unw)


# ----------------------------------------------------------------------------------------------- C14: hex index arithmetic
@guarded
def hex_arith(fns, src, nmax, lo=0, hi=15, name=None):
    """generic_hex for lo <= N <= hi (one internal strategy per range), precision None or any usize: every unchecked index in range, the
    encoder's size precondition holds at both call sites, unreachable_unchecked unreachable, and exactly min(precision, 2N) digits are
    emitted, all of them digits that were actually encoded. The encoder itself is a stub with its contract (proved by K for the fallback)."""
    N, J = syms('N', 'J')
    res = Result(name or 'hex[%d..%d]' % (lo, hi), ['C14'], '%d <= N <= %d, precision None or any usize; chunk loop unrolled (<= %d iterations) with unwinding assertion; encoder stubbed by its contract' % (lo, hi, hi // 1024 + 2))
    ex = Exec(fns, src, J, N, nmax=nmax, loop_cap=hi // 1024 + 3)
    A = Arr('A', N, kind='bytes')
    st = new_state()
    st.pc += [UGE(N, bv(lo)), ULE(N, bv(hi))]
    fn = ex.pick(ex.index[(None, None, 'generic_hex')])
    t0, paths, unw = time.time(), 0, 0
    for (s2, kind, val) in ex.run_fn(st, fn, [ArrRef(A), Opaque('formatter')]):
        paths += 1
        unw += kind == 'unwind'
        ex.require(s2, z3.BoolVal(kind == 'ret'), 'hex formatting can panic', 'end')
        if kind != 'ret':
            continue
        P = s2.notes.get('precision')
        want = (N + N) if P is None else z3.If(ULT(P, N + N), P, N + N)
        written = s2.notes.get('written', [])
        total = bv(0)
        for w in written:
            total = total + (w.end - w.start)
        if 'padding' in s2.notes:
            ex.require(s2, s2.notes['padding'] == 0, 'characters other than the digits are emitted (the width / fill flags are honoured)', 'end')
        if val.variant == 'Ok':
            ex.require(s2, total == want, 'number of digits emitted is not min(precision, 2N)', 'end')
        else:
            ex.require(s2, ULE(total, want), 'more digits emitted than min(precision, 2N) before the sink failed', 'end')
        # every emitted piece is a prefix of a buffer that was filled by the encoder from consecutive input bytes
        enc = s2.notes.get('encoded', [])
        pos = bv(0)      # input bytes accounted for so far
        for k, w in enumerate(written):
            match = [e for e in enc if e[1].arr is w.arr]
            ex.require(s2, z3.BoolVal(bool(match)), 'digits emitted from a buffer the encoder never filled', 'end')
            if not match:
                continue
            srcs, dst = match[min(k, len(match) - 1)]
            ex.require(s2, z3.And(w.start == dst.start, ULE(w.end - w.start, (srcs.end - srcs.start) + (srcs.end - srcs.start))),
                       'digits emitted that the encoder did not produce (output longer than 2 * encoded bytes)', 'end')
            ex.require(s2, srcs.start == pos, 'input bytes are not encoded in index order without gaps', 'end')
            pos = pos + z3.If(ULE((w.end - w.start + 1) / 2 if is_int() else LSHR(w.end - w.start + 1, bv(1)), srcs.end - srcs.start),
                              srcs.end - srcs.start, srcs.end - srcs.start)
    if paths == 0:
        res.verdict, res.reason = 'inconclusive', 'vacuity: no path'
    return finish(res, ex, t0, paths, unw)


# ----------------------------------------------------------------------------------------------- translator validation
def validate_iter(fns, src, nmax):
    """Concrete instances of the iterator scenarios (all symbols fixed): the executor's predictions - returned element index,
    new (index, index_back), ledger of dropped elements - are compared by the caller with what the compiled crate really does."""
    out = []
    for n in range(0, 4):
        for f in range(0, n + 1):
            for b in range(0, n - f + 1):
                for which in ('nth', 'nth_back', 'next', 'next_back'):
                    for k in (range(0, n + 2) if which.startswith('nth') else [0]):
                        N, I, B, a, J = syms('N', 'index', 'index_back', 'n', 'J')
                        ex = Exec(fns, src, J, N, nmax=nmax)
                        ex.needs_drop['T'] = z3.BoolVal(True)      # the native element type of the comparison has drop glue
                        A = Arr('A', N)
                        st = new_state()
                        st.pc += [N == n, I == f, B == n - b, a == k]
                        it = iter_state(ex, st, A, I, B, N, J)
                        trait = 'Iterator' if which in ('nth', 'next') else 'DoubleEndedIterator'
                        fn = ex.pick(ex.index[(trait, 'GenericArrayIter', which)])
                        args = [Ref(it, ()), a] if which.startswith('nth') else [Ref(it, ())]
                        for (s2, kind, val) in ex.run_fn(st, fn, args):
                            if kind != 'ret':
                                continue
                            so = z3.Solver()
                            so.add(*s2.pc)
                            assert so.check() == z3.sat
                            m = so.model()
                            cur = s2.get(it, ())
                            ev = lambda t: m.eval(t, model_completion=True).as_long()
                            ret = ev(val.fields[0].idx) if val.variant == 'Some' else None
                            dropped = []
                            for j in range(n):
                                so2 = z3.Solver()
                                so2.add(*s2.pc)
                                so2.add(J == j, s2.status[A] == DROPPED)
                                if so2.check() == z3.sat:
                                    dropped.append(j)
                            out.append({'n': n, 'front': f, 'back': b, 'op': which, 'arg': k, 'ret': ret, 'index': ev(cur[1]), 'index_back': ev(cur[2]), 'dropped': dropped})
    return out


@guarded
def zip_mixed(fns, src, nmax, which='owned_ref', name=None):
    """zip with one owned and one borrowed operand: `a.zip(&b, f)` (trait-default inverted_zip, the owned side goes through ArrayConsumer)
    and `(&a).zip(b, f)` (GenericArray::inverted_zip2, both needs_drop branches); the closure may panic at every call"""
    N, J = syms('N', 'J')
    res = Result(name or 'zip.' + which, ['C04', 'C08'], 'N <= %d, needs_drop symbolic, the closure may panic at every call' % nmax)
    ex = Exec(fns, src, J, N, nmax=nmax)
    ex.V = Arr('F', bv(2 ** 63))
    Own, Bor = Arr('Owned', N), Arr('Borrowed', N)
    st = new_state()
    bounded(ex, st, N, nmax)
    st.status[Own] = LIVE
    st.status[Bor] = LIVE
    if which == 'owned_ref':
        ex.self_binding = '&GenericArray'
        fn = ex.pick(ex.defaults[('GenericSequence', 'inverted_zip')])
        args = [ArrRef(Bor), Own, Opaque('F')]
    else:
        fn = ex.pick(ex.index[('GenericSequence', 'GenericArray', 'inverted_zip2')])
        args = [Own, ArrRef(Bor), Opaque('F')]
    t0, paths, unw = time.time(), 0, 0
    for (s2, kind, val) in ex.run_fn(st, fn, args):
        paths += 1
        unw += kind == 'unwind'
        inA = ULT(J, N)
        ex.require(s2, z3.Implies(inA, s2.status[Bor] == LIVE), 'a borrowed operand\'s element was moved out or dropped', 'end')
        nd = ex.needs_drop.get('T', z3.BoolVal(True))
        if kind == 'ret':
            ex.require(s2, z3.Implies(inA, ex.stat(s2, val) == LIVE), 'returned array has a slot that is not initialised', 'end')
            ex.require(s2, z3.Implies(inA, z3.Or(s2.status[Own] == EXTERN, s2.status[Own] == DROPPED)), 'owned input element neither handed to the closure nor dropped', 'end')
        elif ex.feasible(s2, nd):
            s2.pc.append(nd)
            ex.require(s2, z3.Implies(inA, z3.Or(s2.status[Own] == EXTERN, s2.status[Own] == DROPPED)), 'owned input element leaked on unwind', 'end(unwind)')
            for arr, stt in out_arrays(s2):
                ex.require(s2, z3.Implies(z3.And(inA, nd_all(ex)), z3.Or(stt == UNINIT, stt == DROPPED)), 'already-built output element leaked on unwind', 'end(unwind)')
        ex.require(s2, ex.stat(s2, ex.V) != HELD, 'value produced by caller code lost (neither stored, dropped nor returned)', 'end')
    return finish(res, ex, t0, paths, unw)


@guarded
def iter_fold(fns, src, nmax, which='fold', name=None):
    """GenericArrayIter::fold / rfold from an arbitrary position; the closure may panic at every call. Every remaining element is either handed
    to the closure (in order) or dropped exactly once by the iterator's Drop; the accumulator is never lost."""
    N, I, B, J = syms('N', 'index', 'index_back', 'J')
    res = Result(name or 'iter.' + which, ['C04', 'C06', 'C03'], 'N <= %d, every position, the closure may panic at every call' % nmax)
    ex = Exec(fns, src, J, N, nmax=nmax)
    ex.V = Arr('F', bv(2 ** 63))
    A = Arr('A', N)
    st = new_state()
    bounded(ex, st, N, nmax)
    it = iter_state(ex, st, A, I, B, N, J)
    fn = ex.pick(ex.index[('Iterator' if which == 'fold' else 'DoubleEndedIterator', 'GenericArrayIter', which)])
    itv = st.get(it, ())
    t0, paths, unw = time.time(), 0, 0
    for (s2, kind, val) in ex.run_fn(st, fn, [itv, Opaque('init'), Opaque('F')]):
        paths += 1
        unw += kind == 'unwind'
        inr = z3.And(ULE(I, J), ULT(J, B))
        if kind == 'ret':
            ex.require(s2, z3.Implies(inr, s2.status[A] == EXTERN), 'fold did not hand every remaining element to the closure', 'end')
            ex.ev_extern(s2, val)
        else:
            ex.require(s2, z3.Implies(z3.And(inr, nd_T(ex)), z3.Or(s2.status[A] == EXTERN, s2.status[A] == DROPPED)), 'remaining element leaked when the closure panics', 'end(unwind)')
        ex.require(s2, z3.Implies(z3.Not(inr), z3.Or(s2.status[A] == EXTERN, ULE(N, J))), 'an element outside the remaining range was touched', 'end')
        ex.require(s2, ex.stat(s2, ex.V) != HELD, 'an accumulator value was lost (neither passed on, dropped nor returned)', 'end')
    return finish(res, ex, t0, paths, unw)


@guarded
def transmute_guard(fns, src, nmax, ctfe=False, name=None):
    """const_transmute::<A, B>: returns the argument's bits iff size_of::<A>() == size_of::<B>(); otherwise panics and the argument is dropped
    exactly once. (The building block of from_array / into_array / flatten / unflatten / assume_init / arr!.)"""
    N, J = syms('N', 'J')
    res = Result(name or 'const_transmute', ['C18', 'C11', 'C02'], 'all sizes of A and B (symbolic)%s; loop-free' % (' (MIR FOR CTFE body)' if ctfe else ''))
    ex = Exec(fns, src, J, N, nmax=nmax, ctfe=ctfe)
    A = Arr('Arg', N)
    st = new_state()
    st.status[A] = LIVE
    fn = ex.pick(ex.index[(None, None, 'const_transmute')])
    fn.ltypes['_1'] = 'GenericArray<T, N>'      # the scenario's A: an array that owns N elements
    t0, paths, unw = time.time(), 0, 0
    seen = set()
    for (s2, kind, val) in ex.run_fn(st, fn, [A]):
        paths += 1
        unw += kind == 'unwind'
        sa, sb = ex.consts.get('size_of_A'), ex.consts.get('size_of_B')
        if kind == 'ret':
            seen.add('ret')
            ex.require(s2, sa == sb, 'transmutes between types of different size', 'end')
            moved = isinstance(val, Arr) and val is not A and val.name.startswith('Moved') and val in s2.status      # a bitwise move (ptr::read of the whole argument) instead of the union
            ex.require(s2, z3.BoolVal(val is A or moved), 'result is not the argument\'s bits', 'end')
            owner = val if moved else A
            ex.require(s2, z3.Implies(ULT(J, N), s2.status[owner] == LIVE), 'argument dropped although its bits were handed on (double drop later)', 'end')
            if moved:
                ex.require(s2, z3.Implies(ULT(J, N), s2.status[A] == UNINIT), 'the argument is still dropped by const_transmute although its bits were moved into the result (double drop)', 'end')
        else:
            seen.add('panic')
            ex.require(s2, sa != sb, 'panics although the sizes are equal', 'panic path')
            ex.require(s2, z3.Implies(ULT(J, N), s2.status[A] == DROPPED), 'argument not dropped exactly once on the size-mismatch panic', 'panic path')
    if seen != {'ret', 'panic'}:
        res.verdict, res.reason = 'inconclusive', 'vacuity: paths seen %s' % sorted(seen)
    return finish(res, ex, t0, paths, unw)


# ----------------------------------------------------------------------------------------------- C17: serde visit_seq
@guarded
def serde_visit_seq(fns, src, nmax, name=None, mir_text=None):
    """GAVisitor::visit_seq over a caller-supplied SeqAccess that may announce any hint (truthful or lying), hold any number of elements,
    fail at any element, or panic at any call. Ok only for exactly N elements; on every other outcome the elements already read are
    dropped exactly once and no partially filled array escapes."""
    N, J, C = syms('N', 'J', 'count')
    res = Result(name or 'serde.visit_seq', ['C17'], 'N <= %d symbolic (or all N < 2^63 with @ind), element count any, hints any (except: Some(0) while elements remain), element error / panic at every call' % nmax)
    ex = Exec(fns, src, J, N, nmax=nmax + 2)
    ex.mir_text = mir_text
    ex.V = Arr('Elements', bv(2 ** 63))
    st = new_state()
    bounded(ex, st, N, nmax)
    if not ex.inductive:
        st.pc.append(ULE(C, N + 2))
    seq = {'kind': 'seq', 'count': C, 'yielded': bv(0)}
    fn = ex.pick(ex.index[('Visitor', 'GAVisitor', 'visit_seq')])
    t0, paths, unw = time.time(), 0, 0
    seen = set()
    for (s2, kind, val) in ex.run_fn(st, fn, [Opaque('visitor'), seq]):
        paths += 1
        unw += kind == 'unwind'
        inA = ULT(J, N)
        for q in s2.heap.values():      # invariant of the source model (a loop summary may have havocked `yielded`)
            if isinstance(q, dict) and q.get('kind') == 'seq':
                s2.pc.append(ULE(q['yielded'], q['count']))
        okret = kind == 'ret' and isinstance(val, Enum) and val.variant == 'Ok'
        if okret:
            seen.add('ok')
            arr = val.fields[0]
            ex.require(s2, z3.Implies(inA, ex.stat(s2, arr) == LIVE), 'Ok array has a slot that is not initialised', 'end')
            ex.require(s2, C == N, 'Ok although the input does not offer exactly N elements', 'end')
            for q in s2.heap.values():
                if isinstance(q, dict) and q.get('kind') == 'seq' and not isinstance(q.get('first_hint', 'none'), str):
                    ex.require(s2, q['first_hint'] == N, 'Ok although the up-front size hint announced another length', 'end')
        else:
            seen.add('err' if kind == 'ret' else 'unwind')
            for arr, stt in out_arrays(s2):
                ex.require(s2, z3.Implies(z3.And(inA, nd_T(ex)), z3.Or(stt == UNINIT, stt == DROPPED)), 'elements already read are leaked (or a partially filled array escapes) on the error / panic path', 'end(%s)' % kind)
            if kind == 'ret':
                for q in s2.heap.values():
                    if isinstance(q, dict) and q.get('kind') == 'seq' and not q.get('failed'):
                        fh = q.get('first_hint', 'none')
                        hint_ok = z3.BoolVal(True) if isinstance(fh, str) else fh == N
                        ex.require(s2, z3.Not(z3.And(C == N, hint_ok)), 'rejected a well-formed input of exactly N elements', 'end')
        ex.require(s2, z3.Or(ex.stat(s2, ex.V) == UNINIT, ex.stat(s2, ex.V) == DROPPED, ex.stat(s2, ex.V) == STORED),
                   'an element read from the input was lost (neither stored nor dropped)', 'end(%s)' % kind)
    if not {'ok', 'err', 'unwind'} <= seen:
        res.verdict, res.reason = 'inconclusive', 'vacuity: outcomes seen %s' % sorted(seen)
    return finish(res, ex, t0, paths, unw)


# ----------------------------------------------------------------------------------------------- C02 / C10 / C11: write permission of mutable views
def ptr_leaves(v):
    if isinstance(v, mirsym._Ptr) and not isinstance(v, mirsym.Ref):
        yield v
    elif isinstance(v, dict):
        if v.get('kind') in ('slice', 'rslice'):
            return
        for k, x in v.items():
            if k != '__closure__':
                yield from ptr_leaves(x)
    elif isinstance(v, Enum):
        yield from ptr_leaves(v.fields)


@guarded
def mut_views(fns, src, nmax, name=None):
    """Every function of the crate that takes `&mut` storage and returns a mutable view of it (`&mut [T]`, `&mut GenericArray`, chunk views,
    flatten/unflatten/split by `&mut`): the returned pointer is derived from the `&mut` argument through mutable borrows / raw pointers only.
    A derivation step through a shared borrow (e.g. `as_ptr()` where `as_mut_ptr()` was meant) makes every write through the view undefined
    behaviour although address, length and contents look right. Loop-free; all N."""
    N, J, L, Q = syms('N', 'J', 'L', 'chunks')
    res = Result(name or 'mutprov', ['C02', 'C10', 'C11'], 'every `&mut`-to-`&mut` view function found in the MIR dump (by signature); all 64-bit N / slice lengths; loop-free')
    t0, paths, unw = time.time(), 0, 0
    ex = Exec(fns, src, J, N, nmax=nmax)
    done, skipped = [], []
    seen_names = set()
    for fname, lst in fns.items():
        for fn in lst:
            if fn.ctfe or '{closure' in fname or len(fn.ptypes) != 1:
                continue
            pt, rt = norm(fn.ptypes[0]), norm(fn.ret or '')
            if not pt.startswith('&mut ') or '&mut ' not in rt or 'usize' in rt or 'Iter' in pt or 'Builder' in pt or 'Consumer' in pt or 'Formatter' in pt:
                continue
            short = fname.split('>::')[-1]
            key = (short, pt)
            if key in seen_names:
                continue
            seen_names.add(key)
            st = new_state()
            st.pc.append((ex.SZ == 0) == z3.Or(N == 0, ex.S == 0))
            if re.match(r'&mut \[(GenericArray<T, N>|\[T; \w+\])\]$', pt):
                S = Arr('S', L)
                st.pc += [MULOK(Q, N), ULE(Q * N, L)]
                arg = Slice(S, bv(0), Q * N, stride=N)
            elif pt == '&mut [T]':
                S = Arr('S', L)
                arg = Slice(S, bv(0), L)
            else:
                S = Arr('A', N)
                arg = ArrRef(S)
            ex.consts.pop('K', None)
            if short == 'split':      # Split<T, K>: K <= N is the trait's type-level precondition (Diff<N, K> exists)
                Ksym = mkint('K')
                st.pc.append(ULE(Ksym, N))
                ex.consts['K'] = Ksym
            in_source = short in ('split', 'flatten', 'unflatten', 'from', 'as_mut', 'as_mut_slice', 'deref_mut', 'borrow_mut', 'from_mut_slice', 'try_from_mut_slice', 'try_from')
            try:
                n_before = len(ex.found)
                for (s2, kind, val) in ex.run_fn(st, fn, [arg]):
                    paths += 1
                    unw += kind == 'unwind'
                    if kind != 'ret':
                        if in_source and not short.startswith(('from_mut_slice', 'try_')):
                            ex.require(s2, z3.BoolVal(False), 'a mutable view of the whole array can panic', short)
                        continue
                    leaves = list(ptr_leaves(val))
                    for pv in leaves:
                        ex.require(s2, z3.BoolVal(pv.prov != 'shared'), 'mutable view returned whose pointer was derived through a shared borrow (writes through it are undefined behaviour)', short)
                        if in_source:
                            ex.require(s2, z3.BoolVal(pv.arr is S), 'mutable view returned that does not point into the source storage (also when it is empty)', short)
                    if short == 'split' and len(leaves) == 2 and all(isinstance(x, (ElemPtr, ArrRef)) for x in leaves):
                        head, tail = leaves
                        hi = bv(0) if isinstance(head, ArrRef) else head.idx
                        ti = bv(0) if isinstance(tail, ArrRef) else tail.idx
                        Kc = ex.consts.get('K')
                        ex.require(s2, hi == 0, 'split: the head does not start at the source', short)
                        if Kc is not None:
                            ex.require(s2, ti == Kc, 'split: the tail does not start right behind the K-element head', short)
                done.append(short)
            except Exception as e:      # anything the executor cannot encode for this one function: left to K, listed in the evidence
                skipped.append('%s (%s)' % (short, str(e)[:80]))
    res.bounds += '; functions decided: %s; not encodable (left to K): %s' % (', '.join(sorted(set(done))), '; '.join(skipped) or 'none')
    if len(set(done)) < 8:
        res.verdict, res.reason = 'inconclusive', 'vacuity: only %d view functions could be executed (%s)' % (len(set(done)), '; '.join(skipped)[:300])
    return finish(res, ex, t0, paths, unw)


# ----------------------------------------------------------------------------------------------- C15 / C16: re-boxing a Vec / Box<[T]>
@guarded
def from_heap(fns, src, nmax, which='try_from_vec', name=None):
    """GenericArray::try_from_vec / try_from_boxed_slice with a source of symbolic length L and capacity CAP >= L: Ok iff L == N, and then the
    very same block is owned by the returned Box under the layout of N elements; otherwise LengthError, every element dropped exactly once and
    the block freed. ALL N, L, CAP; loop-free."""
    N, J, L, CAP = syms('N', 'J', 'L', 'CAP')
    res = Result(name or which, ['C15', 'C16', 'C03'], 'all 64-bit N, source lengths L and capacities CAP >= L; loop-free')
    ex = Exec(fns, src, J, N, nmax=nmax)
    st = new_state()
    st.pc += [ULE(L, CAP), ULT(CAP, bv(2 ** 62)), ULT(N, bv(2 ** 62))]
    arr = Arr('Heap0', CAP)
    blk = Block('V0', arr)
    st.blocks[blk] = 'vec'
    st.notes = dict(st.notes)
    st.notes['cap'] = {arr: CAP}
    st.status[arr] = z3.If(ULT(J, L), LIVE, UNINIT)
    if which == 'try_from_vec':
        arg = {'kind': 'vec', 'arr': arr, 'len': L, 'blk': blk}
    else:
        st.pc.append(L == CAP)      # a Box<[T]> owns exactly its length
        sl = Slice(arr, bv(0), L)
        sl.block = blk
        st.blocks[blk] = 'boxed'
        arg = BoxVal(sl, init=True)
    fn = ex.find_fn('GenericArray::<T, N>::' + which)
    if fn is None:
        raise NotImplementedError('function not found: ' + which)
    t0, paths, unw = time.time(), 0, 0
    seen = set()
    for (s2, kind, val) in ex.run_fn(st, fn, [arg]):
        paths += 1
        unw += kind == 'unwind'
        inL = ULT(J, L)
        if kind != 'ret':
            # an element destructor may panic while a refused source is dropped; the conversion itself must not
            ex.require(s2, z3.BoolVal('own_panic' not in s2.notes), 'the fallible heap conversion panics on its own', 'end')
            continue
        if val.variant == 'Ok':
            seen.add('ok')
            ex.require(s2, L == N, 'Ok although the source does not hold exactly N elements', 'end')
            b = val.fields[0]
            same = isinstance(b, BoxVal) and isinstance(b.ptr, BlockPtr) and b.ptr.block is blk
            ex.require(s2, z3.BoolVal(same), 'the returned Box does not own the source\'s own block (the allocation is not reused)', 'end')
            ex.require(s2, z3.BoolVal(s2.blocks.get(blk) == 'boxed'), 'the source block is not owned by the returned Box', 'end')
            ex.require(s2, z3.Implies(inL, ex.stat(s2, arr) == LIVE), 'an element of the source was dropped or lost on the way into the Box', 'end')
        else:
            seen.add('err')
            ex.require(s2, L != N, 'LengthError although the source holds exactly N elements', 'end')
            ex.require(s2, z3.Implies(z3.And(inL, nd_T(ex)), ex.stat(s2, arr) == DROPPED), 'elements of a refused source are not dropped exactly once (leak)', 'end')
            ex.require(s2, z3.BoolVal(s2.blocks.get(blk) == 'freed'), 'the block of a refused source is never freed (leak)', 'end')
    if seen != {'ok', 'err'}:
        res.verdict, res.reason = 'inconclusive', 'vacuity: outcomes seen %s' % sorted(seen)
    return finish(res, ex, t0, paths, unw)


# ----------------------------------------------------------------------------------------------- C04: an overridden Clone::clone_from
@guarded
def clone_from(fns, src, nmax, name=None):
    """`a.clone_from(&b)`: whatever happens (T::clone may panic at every call), the caller still owns a fully initialised `a` and `b`
    afterwards, every old element of `a` that was replaced was dropped exactly once and no clone is lost. The trait's default
    (`*self = source.clone()`) is covered by the `clone` scenario; this one runs the crate's own override if there is one."""
    N, J = syms('N', 'J')
    res = Result(name or 'clone_from', ['C04'], 'N <= %d, T::clone may panic at every call' % nmax)
    ex = Exec(fns, src, J, N, nmax=nmax)
    ex.V = Arr('Cl', bv(2 ** 63))
    t0, paths, unw = time.time(), 0, 0
    key = ('Clone', 'GenericArray', 'clone_from')
    if key not in ex.index:
        res.bounds += '; the crate does not override clone_from (trait default: `*self = source.clone()`, see scenario clone)'
        return finish(res, ex, t0, 0, 0)
    A, B = Arr('Dest', N), Arr('Source', N)
    st = new_state()
    bounded(ex, st, N, nmax)
    st.status[A] = LIVE
    st.status[B] = LIVE
    fn = ex.pick(ex.index[key])
    for (s2, kind, val) in ex.run_fn(st, fn, [with_prov(ArrRef(A), 'mut'), with_prov(ArrRef(B), 'shared')]):
        paths += 1
        unw += kind == 'unwind'
        inA = ULT(J, N)
        ex.require(s2, z3.Implies(inA, ex.stat(s2, A) == LIVE), 'clone_from leaves a slot of the receiver dead or uninitialised: its owner will drop it again (double drop)', 'end(%s)' % kind)
        ex.require(s2, z3.Implies(inA, ex.stat(s2, B) == LIVE), 'clone_from consumed or dropped an element of its source', 'end(%s)' % kind)
        ex.require(s2, ex.stat(s2, ex.V) != HELD, 'a clone was lost (neither stored nor dropped)', 'end(%s)' % kind)
        for arr, stt in s2.status.items():
            if arr.name.startswith('Moved'):
                ex.require(s2, z3.Implies(z3.And(inA, nd_T(ex)), z3.Or(stt == UNINIT, stt == DROPPED)), 'the replaced elements of the receiver were not dropped (leak)', 'end(%s)' % kind)
    return finish(res, ex, t0, paths, unw)
