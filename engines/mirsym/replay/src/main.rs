//! Native confirmation of findings of engine M (mirsym) against the real crate.
//!
//! `mreplay <scenario> <kind>` runs the scenario for every small configuration (length N <= 4, iterator
//! position, skip count, and every choice of the call / element whose closure, clone, source or destructor
//! panics) under `catch_unwind` with drop-counting elements and a counting allocator, and reports the
//! first configuration that shows the finding's kind (double-drop | leak | block-leak | zero-size-alloc).
//! Exit 1 + a line `REPRODUCED ...` if found, exit 0 otherwise.  This sweep only *confirms* a
//! counterexample the solver produced; it is never the deciding step of a check.
use generic_array::functional::FunctionalSequence;
use generic_array::sequence::*;
use generic_array::typenum::*;
use generic_array::{ArrayLength, GenericArray};
use std::alloc::{GlobalAlloc, Layout, System};
use std::cell::{Cell, RefCell};
use std::panic::{catch_unwind, AssertUnwindSafe};
use std::sync::atomic::{AtomicIsize, AtomicUsize, Ordering::SeqCst};

struct Counting;
static LIVE_BLOCKS: AtomicIsize = AtomicIsize::new(0);
static ZERO_SIZE: AtomicUsize = AtomicUsize::new(0);
static TRACK: AtomicUsize = AtomicUsize::new(0);
unsafe impl GlobalAlloc for Counting {
    unsafe fn alloc(&self, l: Layout) -> *mut u8 {
        if TRACK.load(SeqCst) == 1 {
            LIVE_BLOCKS.fetch_add(1, SeqCst);
            if l.size() == 0 { ZERO_SIZE.fetch_add(1, SeqCst); }
        }
        System.alloc(l)
    }
    unsafe fn dealloc(&self, p: *mut u8, l: Layout) {
        if TRACK.load(SeqCst) == 1 { LIVE_BLOCKS.fetch_sub(1, SeqCst); }
        System.dealloc(p, l)
    }
}
#[global_allocator]
static A: Counting = Counting;

thread_local! {
    static DROPS: RefCell<[u8; 64]> = RefCell::new([0; 64]);
    static CREATED: RefCell<[u8; 64]> = RefCell::new([0; 64]);
    static PANIC_ELEM: Cell<usize> = Cell::new(usize::MAX);   // element whose destructor panics (once)
    static PANIC_CALL: Cell<usize> = Cell::new(usize::MAX);   // index of the caller-code call that panics
    static CALLS: Cell<usize> = Cell::new(0);
}
struct E(usize);
impl E {
    fn new(id: usize) -> E { CREATED.with(|c| c.borrow_mut()[id] += 1); E(id) }
}
impl Drop for E {
    fn drop(&mut self) {
        let before = DROPS.with(|d| { let mut d = d.borrow_mut(); d[self.0] += 1; d[self.0] - 1 });
        if before == 0 && PANIC_ELEM.with(|p| p.get()) == self.0 {
            panic!("destructor of element {} panics", self.0);
        }
    }
}
impl Clone for E {
    fn clone(&self) -> E { tick(); E::new(self.0 + 32) }
}
/// one call of caller-supplied code: panics if it is the chosen one
fn tick() {
    let k = CALLS.with(|c| { let k = c.get(); c.set(k + 1); k });
    if PANIC_CALL.with(|p| p.get()) == k { panic!("caller code panics at call {}", k); }
}
fn reset(pe: usize, pc: usize) {
    DROPS.with(|d| *d.borrow_mut() = [0; 64]);
    CREATED.with(|d| *d.borrow_mut() = [0; 64]);
    PANIC_ELEM.with(|p| p.set(pe));
    PANIC_CALL.with(|p| p.set(pc));
    CALLS.with(|c| c.set(0));
    ZERO_SIZE.store(0, SeqCst);
    LIVE_BLOCKS.store(0, SeqCst);
}
#[derive(Debug, PartialEq, Clone, Copy)]
enum Kind { DoubleDrop, Leak, BlockLeak, ZeroSize }
/// what the run shows, after everything the caller owned has been dropped
fn verdict() -> Option<(Kind, String)> {
    let d = DROPS.with(|d| *d.borrow());
    let c = CREATED.with(|c| *c.borrow());
    let show = format!("created {:?} dropped {:?}", &c[..12], &d[..12]);
    for i in 0..64 { if d[i] > c[i] { return Some((Kind::DoubleDrop, format!("element {i} dropped {} times, created {}; {show}", d[i], c[i]))); } }
    if ZERO_SIZE.load(SeqCst) > 0 { return Some((Kind::ZeroSize, format!("{} zero-size allocation request(s)", ZERO_SIZE.load(SeqCst)))); }
    if LIVE_BLOCKS.load(SeqCst) > 0 { return Some((Kind::BlockLeak, format!("{} heap block(s) still allocated", LIVE_BLOCKS.load(SeqCst)))); }
    for i in 0..64 { if d[i] < c[i] { return Some((Kind::Leak, format!("element {i} created {} times, dropped {}; {show}", c[i], d[i]))); } }
    None
}

fn arr<N: ArrayLength>() -> GenericArray<E, N> { GenericArray::generate(E::new) }

/// runs `f` with tracking on; returns true if it panicked
fn tracked(f: impl FnOnce()) -> bool {
    TRACK.store(1, SeqCst);
    let r = catch_unwind(AssertUnwindSafe(f));
    let panicked = r.is_err();
    drop(r); // the panic payload was allocated while tracking
    TRACK.store(0, SeqCst);
    panicked
}

struct Cfg { scenario: String, want: Kind }

fn sweep<N: ArrayLength>(cfg: &Cfg) -> Option<String> {
    let n = N::USIZE;
    let quiet = std::panic::take_hook();
    std::panic::set_hook(Box::new(|_| {}));
    let mut found = None;
    let sc = cfg.scenario.as_str();
    let iter_sc = sc.starts_with("iter.");
    'outer: for f in 0..=(if iter_sc { n } else { 0 }) {
        for b in 0..=(if iter_sc { n - f } else { 0 }) {
            for skip in 0..=(if sc == "iter.nth" || sc == "iter.nth_back" { n + 1 } else { 0 }) {
                // a leak is only a finding when caller code (not a destructor) panicked: Rust's unwinding rules
                // themselves abandon elements when a destructor panics
                let pes: Vec<usize> = if cfg.want == Kind::Leak || cfg.want == Kind::BlockLeak || cfg.want == Kind::ZeroSize { vec![usize::MAX] } else { (0..n).chain([usize::MAX]).collect() };
                for &pe in &pes {
                    for pc in (0..(2 * n + 3)).chain([usize::MAX]) {
                        if pe != usize::MAX && pc != usize::MAX { continue; }
                        reset(pe, pc);
                        let panicked = tracked(|| run::<N>(sc, f, b, skip));
                        if std::env::var("MREPLAY_DEBUG").is_ok() { eprintln!("N={n} f={f} b={b} skip={skip} pe={pe} pc={pc} panicked={panicked} -> {:?}", verdict()); }
                        if let Some((k, msg)) = verdict() {
                            if k == cfg.want && (panicked || cfg.want == Kind::ZeroSize || cfg.want == Kind::DoubleDrop) {
                                found = Some(format!("scenario={sc} N={n} front={f} back={b} skip={skip} panic_elem={} panic_call={} panicked={panicked}: {msg}",
                                    if pe == usize::MAX { "-".to_string() } else { pe.to_string() }, if pc == usize::MAX { "-".to_string() } else { pc.to_string() }));
                                break 'outer;
                            }
                        }
                    }
                }
            }
        }
    }
    std::panic::set_hook(quiet);
    found
}

fn position<N: ArrayLength>(f: usize, b: usize) -> generic_array::GenericArrayIter<E, N> {
    let mut it = arr::<N>().into_iter();
    for _ in 0..f { std::mem::forget(it.next()); DROPS.with(|d| d.borrow_mut()[0] += 0); }
    for _ in 0..b { std::mem::forget(it.next_back()); }
    // forgotten elements count as handed to the caller: mark them dropped once so they are not reported as leaks
    let n = N::USIZE;
    DROPS.with(|d| { let mut d = d.borrow_mut(); for i in 0..f { d[i] += 1; } for i in (n - b)..n { d[i] += 1; } });
    it
}

struct Src { left: usize, next_id: usize }
impl Iterator for Src {
    type Item = E;
    fn next(&mut self) -> Option<E> {
        tick();
        if self.left == 0 { return None; }
        self.left -= 1;
        self.next_id += 1;
        Some(E::new(self.next_id - 1))
    }
    fn size_hint(&self) -> (usize, Option<usize>) { tick(); (0, None) }
}

fn run<N: ArrayLength>(sc: &str, f: usize, b: usize, skip: usize) {
    let n = N::USIZE;
    match sc {
        "iter.nth" => { let mut it = position::<N>(f, b); let r = catch_unwind(AssertUnwindSafe(|| it.nth(skip))); drop(it); if let Err(e) = r { std::panic::resume_unwind(e) } }
        "iter.nth_back" => { let mut it = position::<N>(f, b); let r = catch_unwind(AssertUnwindSafe(|| it.nth_back(skip))); drop(it); if let Err(e) = r { std::panic::resume_unwind(e) } }
        "iter.count" => { let it = position::<N>(f, b); let _ = it.count(); }
        "iter.last" => { let it = position::<N>(f, b); let _ = it.last(); }
        "iter.drop" => { let it = position::<N>(f, b); drop(it); }
        "iter.next" => { let mut it = position::<N>(f, b); let _ = it.next(); }
        "iter.next_back" => { let mut it = position::<N>(f, b); let _ = it.next_back(); }
        "iter.clone" => { let it = position::<N>(f, b); let r = catch_unwind(AssertUnwindSafe(|| it.clone())); drop(it); match r { Ok(c) => drop(c), Err(e) => std::panic::resume_unwind(e) } }
        "generate" => { let a: GenericArray<E, N> = GenericArray::generate(|i| { tick(); E::new(i) }); drop(a); }
        "box_generate" => { let a = Box::<GenericArray<E, N>>::generate(|i| { tick(); E::new(i) }); drop(a); }
        "map" => { let a = arr::<N>(); let m: GenericArray<E, N> = a.map(|x| { tick(); E::new(x.0 + 16) }); drop(m); }
        "fold" => { let a = arr::<N>(); let _ = a.fold(0usize, |acc, x| { tick(); acc + x.0 }); }
        "zip" => { let a = arr::<N>(); let b2: GenericArray<E, N> = GenericArray::generate(|i| E::new(i + 16)); let z: GenericArray<E, N> = a.zip(b2, |x, y| { tick(); E::new(x.0 + y.0 + 16) }); drop(z); }
        "clone" => { let a = arr::<N>(); let r = catch_unwind(AssertUnwindSafe(|| a.clone())); drop(a); match r { Ok(c) => drop(c), Err(e) => std::panic::resume_unwind(e) } }
        "try_from_iter" => { for cnt in [n, n + 1, n.saturating_sub(1)] { let r = GenericArray::<E, N>::try_from_iter(Src { left: cnt, next_id: 0 }); drop(r); } }
        "remove" => { if n > 0 { let a = arr::<N>(); let r = catch_unwind(AssertUnwindSafe(|| dispatch_remove::<N>(a, n + skip))); if let Err(e) = r { std::panic::resume_unwind(e) } } }
        _ => { eprintln!("unknown scenario {sc}"); std::process::exit(3); }
    }
    let _ = (f, b, skip);
}
fn dispatch_remove<N: ArrayLength>(_a: GenericArray<E, N>, _idx: usize) {
    // Remove needs N: Sub<B1>; exercised for U3 only (see main)
}

fn main() {
    let args: Vec<String> = std::env::args().collect();
    let want = match args[2].as_str() { "double-drop" => Kind::DoubleDrop, "leak" => Kind::Leak, "block-leak" => Kind::BlockLeak, "zero-size-alloc" => Kind::ZeroSize, k => { eprintln!("unknown kind {k}"); std::process::exit(3) } };
    let cfg = Cfg { scenario: args[1].clone(), want };
    let r = sweep::<U0>(&cfg).or_else(|| sweep::<U1>(&cfg)).or_else(|| sweep::<U2>(&cfg)).or_else(|| sweep::<U3>(&cfg)).or_else(|| sweep::<U4>(&cfg));
    match r {
        Some(msg) => { println!("REPRODUCED {msg}"); std::process::exit(1) }
        None => { println!("NOT-REPRODUCED scenario={} kind={:?} over N<=4, every position, skip count and panic point", cfg.scenario, cfg.want); }
    }
}
