//! Native confirmation of findings of engine M (mirsym) against the real crate.
//!
//! `mreplay <scenario> <kind>` runs the scenario for every small configuration (length N <= 4, iterator
//! position, skip count, and every choice of the call / element whose closure, clone, source or destructor
//! panics) under `catch_unwind` with drop-counting elements and a counting allocator, and reports the
//! first configuration that shows the finding's kind (double-drop | leak | block-leak | zero-size-alloc).
//! Exit 1 + a line `REPRODUCED ...` if found, exit 0 otherwise.  This sweep only *confirms* a
//! counterexample the solver produced; it is never the deciding step of a check.
use generic_array::functional::FunctionalSequence;
use generic_array::sequence::*;
use generic_array::typenum::*;
use generic_array::{ArrayLength, GenericArray};
use std::alloc::{GlobalAlloc, Layout, System};
use std::cell::{Cell, RefCell};
use std::panic::{catch_unwind, AssertUnwindSafe};
use std::sync::atomic::{AtomicIsize, AtomicUsize, Ordering::SeqCst};

struct Counting;
static LIVE_BLOCKS: AtomicIsize = AtomicIsize::new(0);
static ZERO_SIZE: AtomicUsize = AtomicUsize::new(0);
static TRACK: AtomicUsize = AtomicUsize::new(0);
// blocks allocated while tracking: (address, size, align); a release under another layout is recorded; freed memory is poisoned and
// `realloc` always moves the block (so that a pointer kept across a shrinking / growing call is visibly stale)
static mut BLOCKS: [(usize, usize, usize); 512] = [(0, 0, 0); 512];
static MISMATCH: AtomicUsize = AtomicUsize::new(0);
unsafe impl GlobalAlloc for Counting {
    unsafe fn alloc(&self, l: Layout) -> *mut u8 {
        let p = System.alloc(l);
        if TRACK.load(SeqCst) == 1 {
            LIVE_BLOCKS.fetch_add(1, SeqCst);
            if l.size() == 0 { ZERO_SIZE.fetch_add(1, SeqCst); }
            let t = &mut *core::ptr::addr_of_mut!(BLOCKS);
            for e in t.iter_mut() { if e.0 == 0 { *e = (p as usize, l.size(), l.align()); break; } }
        }
        p
    }
    unsafe fn dealloc(&self, p: *mut u8, l: Layout) {
        if TRACK.load(SeqCst) == 1 { LIVE_BLOCKS.fetch_sub(1, SeqCst); }
        let t = &mut *core::ptr::addr_of_mut!(BLOCKS);
        for e in t.iter_mut() {
            if e.0 == p as usize && e.0 != 0 {
                if e.1 != l.size() || e.2 != l.align() { MISMATCH.store(e.1 * 1_000_000 + l.size() + 1, SeqCst); }
                core::ptr::write_bytes(p, 0xDD, e.1.min(l.size()));
                *e = (0, 0, 0);
                break;
            }
        }
        System.dealloc(p, l)
    }
    unsafe fn realloc(&self, p: *mut u8, l: Layout, new_size: usize) -> *mut u8 {
        let nl = Layout::from_size_align_unchecked(new_size, l.align());
        let q = self.alloc(nl);
        if !q.is_null() { core::ptr::copy_nonoverlapping(p, q, l.size().min(new_size)); self.dealloc(p, l); }
        q
    }
}
#[global_allocator]
static A: Counting = Counting;

thread_local! {
    static DROPS: RefCell<[u8; 64]> = RefCell::new([0; 64]);
    static CREATED: RefCell<[u8; 64]> = RefCell::new([0; 64]);
    static PANIC_ELEM: Cell<usize> = Cell::new(usize::MAX);   // element whose destructor panics (once)
    static PANIC_CALL: Cell<usize> = Cell::new(usize::MAX);   // index of the caller-code call that panics
    static CALLS: Cell<usize> = Cell::new(0);
}
struct E(usize);
impl E {
    fn new(id: usize) -> E { CREATED.with(|c| c.borrow_mut()[id] += 1); E(id) }
}
impl Drop for E {
    fn drop(&mut self) {
        let before = DROPS.with(|d| { let mut d = d.borrow_mut(); d[self.0] += 1; d[self.0] - 1 });
        if before == 0 && PANIC_ELEM.with(|p| p.get()) == self.0 {
            panic!("destructor of element {} panics", self.0);
        }
    }
}
impl Clone for E {
    fn clone(&self) -> E { tick(); E::new(self.0 + 32) }
}
/// element types of the sweeps: `E` (sized, identified) and `Zt` (zero-sized: all instances share ledger slot 63)
trait El: Sized + Clone { fn new(id: usize) -> Self; fn idv(&self) -> usize; const ZST: bool; }
impl El for E { fn new(id: usize) -> E { E::new(id) } fn idv(&self) -> usize { self.0 } const ZST: bool = false; }
struct Zt;
impl El for Zt { fn new(_id: usize) -> Zt { CREATED.with(|c| c.borrow_mut()[63] += 1); Zt } fn idv(&self) -> usize { 0 } const ZST: bool = true; }
impl Drop for Zt { fn drop(&mut self) { DROPS.with(|d| d.borrow_mut()[63] += 1); } }
impl Clone for Zt { fn clone(&self) -> Zt { tick(); <Zt as El>::new(0) } }
/// one call of caller-supplied code: panics if it is the chosen one
fn tick() {
    let k = CALLS.with(|c| { let k = c.get(); c.set(k + 1); k });
    if PANIC_CALL.with(|p| p.get()) == k { panic!("caller code panics at call {}", k); }
}
fn reset(pe: usize, pc: usize) {
    DROPS.with(|d| *d.borrow_mut() = [0; 64]);
    CREATED.with(|d| *d.borrow_mut() = [0; 64]);
    PANIC_ELEM.with(|p| p.set(pe));
    PANIC_CALL.with(|p| p.set(pc));
    CALLS.with(|c| c.set(0));
    ZERO_SIZE.store(0, SeqCst);
    LIVE_BLOCKS.store(0, SeqCst);
    MISMATCH.store(0, SeqCst);
    unsafe { let t = &mut *core::ptr::addr_of_mut!(BLOCKS); for e in t.iter_mut() { *e = (0, 0, 0); } }
}
#[derive(Debug, PartialEq, Clone, Copy)]
enum Kind { DoubleDrop, Leak, BlockLeak, ZeroSize }
/// what the run shows, after everything the caller owned has been dropped
fn verdict() -> Option<(Kind, String)> {
    let d = DROPS.with(|d| *d.borrow());
    let c = CREATED.with(|c| *c.borrow());
    let show = format!("created {:?} dropped {:?}", &c[..12], &d[..12]);
    for i in 0..64 { if d[i] > c[i] { return Some((Kind::DoubleDrop, format!("element {i} dropped {} times, created {}; {show}", d[i], c[i]))); } }
    if ZERO_SIZE.load(SeqCst) > 0 { return Some((Kind::ZeroSize, format!("{} zero-size allocation request(s)", ZERO_SIZE.load(SeqCst)))); }
    if LIVE_BLOCKS.load(SeqCst) > 0 { return Some((Kind::BlockLeak, format!("{} heap block(s) still allocated", LIVE_BLOCKS.load(SeqCst)))); }
    for i in 0..64 { if d[i] < c[i] { return Some((Kind::Leak, format!("element {i} created {} times, dropped {}; {show}", c[i], d[i]))); } }
    None
}

fn arr<X: El, N: ArrayLength>() -> GenericArray<X, N> { GenericArray::generate(X::new) }

/// runs `f` with tracking on; returns true if it panicked
fn tracked(f: impl FnOnce()) -> bool {
    TRACK.store(1, SeqCst);
    let r = catch_unwind(AssertUnwindSafe(f));
    let panicked = r.is_err();
    drop(r); // the panic payload was allocated while tracking
    TRACK.store(0, SeqCst);
    panicked
}

struct Cfg { scenario: String, want: Kind }

fn sweep<X: El, N: ArrayLength>(cfg: &Cfg) -> Option<String> {
    let n = N::USIZE;
    let quiet = std::panic::take_hook();
    std::panic::set_hook(Box::new(|_| {}));
    let mut found = None;
    let sc = cfg.scenario.as_str();
    let iter_sc = sc.starts_with("iter.");
    'outer: for f in 0..=(if iter_sc { n } else { 0 }) {
        for b in 0..=(if iter_sc { n - f } else { 0 }) {
            for skip in 0..=(if sc == "iter.nth" || sc == "iter.nth_back" { n + 1 } else { 0 }) {
                // a leak is only a finding when caller code (not a destructor) panicked: Rust's unwinding rules
                // themselves abandon elements when a destructor panics
                let pes: Vec<usize> = if X::ZST || cfg.want == Kind::Leak || cfg.want == Kind::BlockLeak || cfg.want == Kind::ZeroSize { vec![usize::MAX] } else { (0..n).chain([usize::MAX]).collect() };
                for &pe in &pes {
                    for pc in (0..(2 * n + 3)).chain([usize::MAX]) {
                        if pe != usize::MAX && pc != usize::MAX { continue; }
                        reset(pe, pc);
                        let panicked = tracked(|| run::<X, N>(sc, f, b, skip));
                        if std::env::var("MREPLAY_DEBUG").is_ok() { eprintln!("N={n} f={f} b={b} skip={skip} pe={pe} pc={pc} panicked={panicked} -> {:?}", verdict()); }
                        if let Some((k, msg)) = verdict() {
                            if k == cfg.want && (panicked || cfg.want == Kind::ZeroSize || cfg.want == Kind::DoubleDrop) {
                                found = Some(format!("scenario={sc} element={} N={n} front={f} back={b} skip={skip} panic_elem={} panic_call={} panicked={panicked}: {msg}", if X::ZST { "zero-sized" } else { "sized" },
                                    if pe == usize::MAX { "-".to_string() } else { pe.to_string() }, if pc == usize::MAX { "-".to_string() } else { pc.to_string() }));
                                break 'outer;
                            }
                        }
                    }
                }
            }
        }
    }
    std::panic::set_hook(quiet);
    found
}

fn position<X: El, N: ArrayLength>(f: usize, b: usize) -> generic_array::GenericArrayIter<X, N> {
    let mut it = arr::<X, N>().into_iter();
    for _ in 0..f { std::mem::forget(it.next()); DROPS.with(|d| d.borrow_mut()[0] += 0); }
    for _ in 0..b { std::mem::forget(it.next_back()); }
    // forgotten elements count as handed to the caller: mark them dropped once so they are not reported as leaks
    let n = N::USIZE;
    DROPS.with(|d| { let mut d = d.borrow_mut(); if X::ZST { d[63] += (f + b) as u8; } else { for i in 0..f { d[i] += 1; } for i in (n - b)..n { d[i] += 1; } } });
    it
}

struct Src<X> { left: usize, next_id: usize, _x: std::marker::PhantomData<X> }
impl<X: El> Iterator for Src<X> {
    type Item = X;
    fn next(&mut self) -> Option<X> {
        tick();
        if self.left == 0 { return None; }
        self.left -= 1;
        self.next_id += 1;
        Some(X::new(self.next_id - 1))
    }
    fn size_hint(&self) -> (usize, Option<usize>) { tick(); (0, None) }
}

fn run<X: El, N: ArrayLength>(sc: &str, f: usize, b: usize, skip: usize) {
    let n = N::USIZE;
    match sc {
        "iter.nth" => { let mut it = position::<X, N>(f, b); let r = catch_unwind(AssertUnwindSafe(|| it.nth(skip))); drop(it); if let Err(e) = r { std::panic::resume_unwind(e) } }
        "iter.nth_back" => { let mut it = position::<X, N>(f, b); let r = catch_unwind(AssertUnwindSafe(|| it.nth_back(skip))); drop(it); if let Err(e) = r { std::panic::resume_unwind(e) } }
        "iter.count" => { let it = position::<X, N>(f, b); let _ = it.count(); }
        "iter.last" => { let it = position::<X, N>(f, b); let _ = it.last(); }
        "iter.drop" => { let it = position::<X, N>(f, b); drop(it); }
        "iter.next" => { let mut it = position::<X, N>(f, b); let _ = it.next(); }
        "iter.next_back" => { let mut it = position::<X, N>(f, b); let _ = it.next_back(); }
        "iter.fold" => { let it = position::<X, N>(f, b); let _ = it.fold(0usize, |acc, x| { tick(); acc + x.idv() }); }
        // provided Iterator / DoubleEndedIterator methods the crate may override (iter.overrides): a matching and a non-matching predicate
        s if s.starts_with("iter.ov.") => {
            let mut it = position::<X, N>(f, b);
            let target = if s.ends_with(".none") { usize::MAX } else { n.saturating_sub(1 + b) };
            let r = catch_unwind(AssertUnwindSafe(|| match &s["iter.ov.".len()..] {
                "find" | "find.none" => drop(it.find(|x| { tick(); x.idv() == target })),
                "rfind" | "rfind.none" => drop(it.rfind(|x| { tick(); x.idv() == f })),
                "position" | "position.none" => drop(it.position(|x| { tick(); x.idv() == target })),
                "any" | "any.none" => drop(it.any(|x| { tick(); x.idv() == target })),
                "all" => drop(it.all(|x| { tick(); x.idv() != target })),
                "for_each" => (&mut it).for_each(|x| { tick(); drop(x) }),
                "try_fold" => drop(it.try_fold(0usize, |a, x| { tick(); if x.idv() == target { None } else { Some(a + 1) } })),
                "find_map" => drop(it.find_map(|x| { tick(); if x.idv() == target { Some(x) } else { None } })),
                "skip_while" => drop((&mut it).skip_while(|x| { tick(); x.idv() != target }).next()),
                _ => {}
            }));
            drop(it);
            if let Err(e) = r { std::panic::resume_unwind(e) }
        }
        "iter.rfold" => { let it = position::<X, N>(f, b); let _ = it.rfold(0usize, |acc, x| { tick(); acc + x.idv() }); }
        "iter.clone" => { let it = position::<X, N>(f, b); let r = catch_unwind(AssertUnwindSafe(|| it.clone())); drop(it); match r { Ok(c) => drop(c), Err(e) => std::panic::resume_unwind(e) } }
        "generate" => { let a: GenericArray<X, N> = GenericArray::generate(|i| { tick(); X::new(i) }); drop(a); }
        "box_generate" => { let a = Box::<GenericArray<X, N>>::generate(|i| { tick(); X::new(i) }); drop(a); }
        "map" => { let a = arr::<X, N>(); let m: GenericArray<X, N> = a.map(|x| { tick(); X::new(x.idv() + 16) }); drop(m); }
        "fold" => { let a = arr::<X, N>(); let _ = a.fold(0usize, |acc, x| { tick(); acc + x.idv() }); }
        "zip" => { let a = arr::<X, N>(); let b2: GenericArray<X, N> = GenericArray::generate(|i| X::new(i + 16)); let z: GenericArray<X, N> = a.zip(b2, |x, y| { tick(); X::new(x.idv() + y.idv() + 16) }); drop(z); }
        // only one of the two element types needs drop (selects between the guarded and the unguarded branch)
        "zip.left_plain" => { let a: GenericArray<u32, N> = GenericArray::generate(|i| i as u32); let b2 = arr::<X, N>(); let z: GenericArray<u32, N> = a.zip(b2, |x, y| { tick(); x + y.idv() as u32 }); drop(z); }
        "zip.right_plain" => { let a = arr::<X, N>(); let b2: GenericArray<u32, N> = GenericArray::generate(|i| i as u32); let z: GenericArray<u32, N> = a.zip(b2, |x, y| { tick(); x.idv() as u32 + y }); drop(z); }
        "zip.ref_owned" => { let a = arr::<X, N>(); let b2: GenericArray<X, N> = GenericArray::generate(|i| X::new(i + 16)); let z: GenericArray<u32, N> = (&a).zip(b2, |x, y| { tick(); (x.idv() + y.idv()) as u32 }); drop(z); drop(a); }
        "zip.owned_ref" => { let a = arr::<X, N>(); let b2: GenericArray<X, N> = GenericArray::generate(|i| X::new(i + 16)); let z: GenericArray<u32, N> = a.zip(&b2, |x, y| { tick(); (x.idv() + y.idv()) as u32 }); drop(z); drop(b2); }
        "map.ref" => { let a = arr::<X, N>(); let m: GenericArray<X, N> = (&a).map(|x| { tick(); X::new(x.idv() + 16) }); drop(m); drop(a); }
        // a drop-tracked accumulator (an in-place accumulator update can double-drop it when the closure panics)
        "fold.acc" => { let a = arr::<X, N>(); let r = a.fold(X::new(40), |acc, x| { tick(); let k = x.idv(); drop(acc); drop(x); X::new(41 + k % 8) }); drop(r); }
        "iter.fold.acc" => { let it = position::<X, N>(f, b); let r = it.fold(X::new(40), |acc, x| { tick(); let k = x.idv(); drop(acc); drop(x); X::new(41 + k % 8) }); drop(r); }
        "fold.ref" => { let a = arr::<X, N>(); let _ = (&a).fold(0usize, |acc, x| { tick(); acc + x.idv() }); drop(a); }
        "clone" => { let a = arr::<X, N>(); let r = catch_unwind(AssertUnwindSafe(|| a.clone())); drop(a); match r { Ok(c) => drop(c), Err(e) => std::panic::resume_unwind(e) } }
        "try_from_iter" => { for cnt in [n, n + 1, n.saturating_sub(1)] { let r = GenericArray::<X, N>::try_from_iter(Src::<X> { left: cnt, next_id: 0, _x: std::marker::PhantomData }); drop(r); } }
        // one source length per run: with a panicking destructor the first conversion of the combined arm above ends the run
        "try_from_iter.long" => { let r = GenericArray::<X, N>::try_from_iter(Src::<X> { left: n + 1, next_id: 0, _x: std::marker::PhantomData }); drop(r); }
        "try_from_iter.short" => { let r = GenericArray::<X, N>::try_from_iter(Src::<X> { left: n.saturating_sub(1), next_id: 0, _x: std::marker::PhantomData }); drop(r); }
        "try_from_iter.exact" => { let r = GenericArray::<X, N>::try_from_iter(Src::<X> { left: n, next_id: 0, _x: std::marker::PhantomData }); drop(r); }
        "iter.clone_from" => { let mut it = position::<X, N>(f, b); let src = GenericArray::<X, N>::generate(|i| X::new(i + 16)).into_iter(); let r = catch_unwind(AssertUnwindSafe(|| it.clone_from(&src))); drop(it); drop(src); if let Err(e) = r { std::panic::resume_unwind(e) } }
        "box.map" => { let b = Box::new(arr::<X, N>()); let m: Box<GenericArray<usize, N>> = b.map(|x| { tick(); x.idv() }); drop(m); }
        "box.map.plain" => { let b: Box<GenericArray<usize, N>> = Box::new(GenericArray::generate(|i| i)); let m: Box<GenericArray<usize, N>> = b.map(|x| { tick(); x + 1 }); drop(m); }
        "box.fold" => { let b = Box::new(arr::<X, N>()); let _ = b.fold(0usize, |acc, x| { tick(); acc + x.idv() }); }
        "box.fold.plain" => { let b: Box<GenericArray<usize, N>> = Box::new(GenericArray::generate(|i| i)); let _ = b.fold(0usize, |acc, x| { tick(); acc + x }); }
        "clone_from" => { let mut a = arr::<X, N>(); let b2: GenericArray<X, N> = GenericArray::generate(|i| X::new(i + 16)); let r = catch_unwind(AssertUnwindSafe(|| a.clone_from(&b2))); drop(a); drop(b2); if let Err(e) = r { std::panic::resume_unwind(e) } }
        "try_boxed_from_iter.long" => { let r = GenericArray::<X, N>::try_boxed_from_iter(Src::<X> { left: n + 1, next_id: 0, _x: std::marker::PhantomData }); drop(r); }
        "try_boxed_from_iter.short" => { let r = GenericArray::<X, N>::try_boxed_from_iter(Src::<X> { left: n.saturating_sub(1), next_id: 0, _x: std::marker::PhantomData }); drop(r); }
        "try_boxed_from_iter" => { for cnt in [n, n + 1, n.saturating_sub(1)] { let r = GenericArray::<X, N>::try_boxed_from_iter(Src::<X> { left: cnt, next_id: 0, _x: std::marker::PhantomData }); drop(r); } }
        "remove" => { if n > 0 { let a = arr::<X, N>(); let r = catch_unwind(AssertUnwindSafe(|| dispatch_remove::<X, N>(a, n + skip))); if let Err(e) = r { std::panic::resume_unwind(e) } } }
        _ => { eprintln!("unknown scenario {sc}"); std::process::exit(3); }
    }
    let _ = (f, b, skip);
}
fn dispatch_remove<X: El, N: ArrayLength>(_a: GenericArray<X, N>, _idx: usize) {
    // Remove needs N: Sub<B1>; exercised for U3 only (see main)
}

// ---------------------------------------------------------------------------------------------
// "semantic" findings (a result differs from the reference model): small native differential sweeps
// ---------------------------------------------------------------------------------------------
fn sem_iff<N: ArrayLength>() -> Option<String> {
    let n = N::USIZE;
    let mut raw = [0u32; 12];
    for l in 0..=(n + 3) {
        let want = l == n;
        let r1 = GenericArray::<u32, N>::try_from_slice(&raw[..l]);
        if r1.is_ok() != want { return Some(format!("try_from_slice::<U{n}> on a slice of {l} elements: Ok = {}", r1.is_ok())); }
        if let Ok(a) = r1 { if a.as_ptr() != raw.as_ptr() { return Some(format!("try_from_slice::<U{n}>: result does not alias the source")); } }
        let r2: Result<&GenericArray<u32, N>, _> = <&GenericArray<u32, N>>::try_from(&raw[..l]);
        if r2.is_ok() != want { return Some(format!("TryFrom<&[T]>::<U{n}> on a slice of {l} elements: Ok = {}", r2.is_ok())); }
        let p = raw.as_ptr();
        let r3 = GenericArray::<u32, N>::try_from_mut_slice(&mut raw[..l]);
        if r3.is_ok() != want { return Some(format!("try_from_mut_slice::<U{n}> on a slice of {l} elements: Ok = {}", r3.is_ok())); }
        if let Ok(a) = r3 { if a.as_ptr() != p { return Some("try_from_mut_slice: result does not alias the source".into()); } }
        let r4: Result<&mut GenericArray<u32, N>, _> = <&mut GenericArray<u32, N>>::try_from(&mut raw[..l]);
        if r4.is_ok() != want { return Some(format!("TryFrom<&mut [T]>::<U{n}> on a slice of {l} elements: Ok = {}", r4.is_ok())); }
        let q = catch_unwind(AssertUnwindSafe(|| { GenericArray::<u32, N>::from_slice(&raw[..l]).len() }));
        if q.is_ok() != want { return Some(format!("from_slice::<U{n}> on a slice of {l} elements: returned = {}", q.is_ok())); }
        let mut raw2 = raw;
        let q = catch_unwind(AssertUnwindSafe(move || { GenericArray::<u32, N>::from_mut_slice(&mut raw2[..l]).len() }));
        if q.is_ok() != want { return Some(format!("from_mut_slice::<U{n}> on a slice of {l} elements: returned = {}", q.is_ok())); }
        // zero-sized elements
        let mut z = [(); 12];
        let q = catch_unwind(AssertUnwindSafe(|| { GenericArray::<(), N>::from_slice(&z[..l]).len() }));
        if q.is_ok() != want { return Some(format!("from_slice::<(), U{n}> on a slice of {l} elements: returned = {}", q.is_ok())); }
        let q = catch_unwind(AssertUnwindSafe(|| { GenericArray::<(), N>::from_mut_slice(&mut z[..l]).len() }));
        if q.is_ok() != want { return Some(format!("from_mut_slice::<(), U{n}> on a slice of {l} elements: returned = {}", q.is_ok())); }
        if GenericArray::<(), N>::try_from_slice(&z[..l]).is_ok() != want { return Some(format!("try_from_slice::<(), U{n}> on a slice of {l} elements")); }
        if GenericArray::<(), N>::try_from_mut_slice(&mut z[..l]).is_ok() != want { return Some(format!("try_from_mut_slice::<(), U{n}> on a slice of {l} elements")); }
    }
    None
}
fn sem_view<N: ArrayLength>() -> Option<String> {
    use std::borrow::{Borrow, BorrowMut};
    let n = N::USIZE;
    // the array sits behind a header inside a larger object: for N = 0 its address is still a definite place (not `align_of::<T>()`)
    let mut holder: (u64, GenericArray<u32, N>) = (7, GenericArray::generate(|i| i as u32));
    let a = &mut holder.1;
    let base = a as *const _ as usize;
    let views: [&[u32]; 4] = [a.as_slice(), &**a, (*a).as_ref(), (*a).borrow()];
    for (k, v) in views.iter().enumerate() {
        if v.len() != n || v.as_ptr() as usize != base { return Some(format!("shared view #{k} of GenericArray<u32, U{n}> is not (address of the array, {n} elements): len {}", v.len())); }
    }
    if (&*a).into_iter().count() != n { return Some("by-reference iteration has the wrong length".into()); }
    if a.as_mut_slice().len() != n || (&mut **a).len() != n || AsMut::<[u32]>::as_mut(a).len() != n || BorrowMut::<[u32]>::borrow_mut(a).len() != n || (&mut *a).into_iter().count() != n {
        return Some(format!("a mutable view of GenericArray<u32, U{n}> does not have {n} elements"));
    }
    if a.as_mut_slice().as_mut_ptr() as usize != base || (&mut **a).as_mut_ptr() as usize != base || AsMut::<[u32]>::as_mut(a).as_mut_ptr() as usize != base {
        return Some(format!("a mutable view of GenericArray<u32, U{n}> does not start at the array's address"));
    }
    None
}
fn sem_chunks<N: ArrayLength>() -> Option<String> {
    let n = N::USIZE;
    let mut raw: Vec<u32> = (0..(4 * n + 3) as u32).collect();
    for l in 0..=(4 * n + 3) {
        if n == 0 {
            let r = catch_unwind(AssertUnwindSafe(|| { let (c, r) = GenericArray::<u32, N>::chunks_from_slice(&raw[..l]); (c.len(), r.len()) }));
            match r { Ok((c, r)) => if l != 0 || c != 0 || r != 0 { return Some(format!("chunks_from_slice::<U0> on {l} elements returned ({c}, {r})")); }, Err(_) => if l == 0 { return Some("chunks_from_slice::<U0> panics on an empty slice".into()); } }
            let mut raw2 = raw.clone();
            let r = catch_unwind(AssertUnwindSafe(move || { let (c, r) = GenericArray::<u32, N>::chunks_from_slice_mut(&mut raw2[..l]); (c.len(), r.len()) }));
            match r { Ok((c, r)) => if l != 0 || c != 0 || r != 0 { return Some(format!("chunks_from_slice_mut::<U0> on {l} elements returned ({c}, {r})")); }, Err(_) => if l == 0 { return Some("chunks_from_slice_mut::<U0> panics on an empty slice".into()); } }
            continue;
        }
        {
            // zero-sized elements: only the counts are observable, and N > 0 must never panic
            let mut z = vec![(); l];
            let r = catch_unwind(AssertUnwindSafe(|| { let (c, r) = GenericArray::<(), N>::chunks_from_slice(&z); (c.len(), r.len()) }));
            if r.as_ref().ok() != Some(&(l / n, l % n)) { return Some(format!("chunks_from_slice::<(), U{n}> on {l} zero-sized elements: {:?}", r.ok())); }
            let r = catch_unwind(AssertUnwindSafe(|| { let (c, r) = GenericArray::<(), N>::chunks_from_slice_mut(&mut z); (c.len(), r.len()) }));
            if r.as_ref().ok() != Some(&(l / n, l % n)) { return Some(format!("chunks_from_slice_mut::<(), U{n}> on {l} zero-sized elements: {:?} (None = panicked)", r.ok())); }
            let r = catch_unwind(AssertUnwindSafe(|| { let (c, _) = GenericArray::<(), N>::chunks_from_slice(&z); (GenericArray::<(), N>::slice_from_chunks(c).len(), c.len()) }));
            match r { Ok((fl, cl)) => if fl != cl * n { return Some(format!("slice_from_chunks::<(), U{n}>: {fl} elements from {cl} chunks")); }, Err(_) => return Some(format!("slice_from_chunks::<(), U{n}> panics on {l} zero-sized elements")) }
        }
        let base = raw.as_ptr() as usize;
        {
            let (c, r) = GenericArray::<u32, N>::chunks_from_slice(&raw[..l]);
            if c.len() != l / n || r.len() != l % n { return Some(format!("chunks_from_slice::<U{n}> on {l} elements: {} chunks + {} remainder", c.len(), r.len())); }
            if (!c.is_empty() && c.as_ptr() as usize != base) || (!r.is_empty() && r.as_ptr() as usize != base + 4 * n * c.len()) { return Some(format!("chunks_from_slice::<U{n}> on {l} elements: parts are not adjacent views of the source")); }
            let f = GenericArray::<u32, N>::slice_from_chunks(c);
            if f.len() != c.len() * n { return Some(format!("slice_from_chunks::<U{n}>: {} elements from {} chunks", f.len(), c.len())); }
        }
        {
            let (c, r) = GenericArray::<u32, N>::chunks_from_slice_mut(&mut raw[..l]);
            if c.len() != l / n || r.len() != l % n { return Some(format!("chunks_from_slice_mut::<U{n}> on {l} elements: {} chunks + {} remainder", c.len(), r.len())); }
            if (!c.is_empty() && c.as_ptr() as usize != base) || (!r.is_empty() && r.as_ptr() as usize != base + 4 * n * c.len()) { return Some(format!("chunks_from_slice_mut::<U{n}> on {l} elements: parts are not adjacent views of the source")); }
            let cl = c.len();
            let f = GenericArray::<u32, N>::slice_from_chunks_mut(c);
            if f.len() != cl * n { return Some(format!("slice_from_chunks_mut::<U{n}>: {} elements from {cl} chunks", f.len())); }
        }
    }
    None
}
fn sem_iter<N: ArrayLength>() -> Option<String> { sem_iter_x::<u32, N>().or_else(|| sem_iter_x::<(), N>()) }
fn sem_iter_x<V: Mk + Copy + PartialEq + std::fmt::Debug, N: ArrayLength>() -> Option<String> {
    use std::collections::VecDeque;
    let n = N::USIZE;
    let quiet = std::panic::take_hook();
    std::panic::set_hook(Box::new(|_| {}));
    let mut out = None;
    'o: for f in 0..=n { for b in 0..=(n - f) { for op in 0..11 { for arg in 0..=(n + 2) {
        let r = catch_unwind(AssertUnwindSafe(|| {
            let mut it = GenericArray::<V, N>::generate(V::mk).into_iter();
            let mut m: VecDeque<V> = (0..n).map(V::mk).collect();
            for _ in 0..f { if it.next() != m.pop_front() { return Some("next".to_string()); } }
            for _ in 0..b { if it.next_back() != m.pop_back() { return Some("next_back".to_string()); } }
            let bad = match op {
                0 => it.next() != m.pop_front(),
                1 => it.next_back() != m.pop_back(),
                2 => { let want = if arg < m.len() { m.drain(..arg); m.pop_front() } else { m.clear(); None }; it.nth(arg) != want }
                3 => { let want = if arg < m.len() { let l = m.len(); m.truncate(l - arg); m.pop_back() } else { m.clear(); None }; it.nth_back(arg) != want }
                4 => it.len() != m.len() || it.size_hint() != (m.len(), Some(m.len())),
                5 => it.as_slice().iter().copied().ne(m.iter().copied()),
                6 => { let c = it.clone(); c.ne(m.iter().copied()) }
                7 => { let l = m.len(); let c = it.count(); return if c != l { Some(format!("count() = {c}, {l} remaining")) } else { None } }
                8 => { let w = m.back().copied(); let l = it.last(); return if l != w { Some(format!("last() = {l:?}, want {w:?}")) } else { None } }
                9 => { let mut seen = Vec::new(); let c = it.fold(0usize, |acc, x| { seen.push(x); acc + 1 }); let want: Vec<V> = m.iter().copied().collect();
                       return if c != want.len() || seen != want { Some(format!("fold visited {c} element(s) {seen:?}, {} remaining {want:?}", want.len())) } else { None } }
                _ => { let mut seen = Vec::new(); let c = it.rfold(0usize, |acc, x| { seen.push(x); acc + 1 }); let want: Vec<V> = m.iter().rev().copied().collect();
                       return if c != want.len() || seen != want { Some(format!("rfold visited {c} element(s) {seen:?}, {} remaining {want:?}", want.len())) } else { None } }
            };
            if bad { return Some(format!("result differs from VecDeque")); }
            if it.len() != m.len() || it.as_slice().iter().copied().ne(m.iter().copied()) { return Some("post-state differs from VecDeque".to_string()); }
            None
        }));
        let msg = match r { Ok(None) => continue, Ok(Some(m)) => m, Err(_) => "panicked".to_string() };
        out = Some(format!("GenericArrayIter<{}, U{n}> after {f} next / {b} next_back, op #{op} (0 next,1 next_back,2 nth,3 nth_back,4 len,5 as_slice,6 clone,7 count,8 last,9 fold,10 rfold) arg {arg}: {msg}", V::NAME));
        break 'o;
    } } } }
    std::panic::set_hook(quiet);
    out
}
fn hex_model(bytes: &[u8], prec: Option<usize>, upper: bool) -> String {
    let mut s = String::new();
    for b in bytes { for nib in [b >> 4, b & 15] { s.push(char::from_digit(nib as u32, 16).map(|c| if upper { c.to_ascii_uppercase() } else { c }).unwrap()); } }
    match prec { Some(p) if p < s.len() => s[..p].to_string(), _ => s }
}
type U1025 = generic_array::typenum::Sum<U1024, U1>;
type U2049 = generic_array::typenum::Sum<U2048, U1>;
type U3000 = generic_array::typenum::Sum<U2048, generic_array::typenum::Sum<U512, generic_array::typenum::Sum<U256, generic_array::typenum::Sum<U128, generic_array::typenum::Sum<U32, generic_array::typenum::Sum<U16, U8>>>>>>;
fn sem_hex() -> Option<String> {
    macro_rules! one { ($N:ty) => {{
        let n = <$N>::USIZE;
        let a: GenericArray<u8, $N> = GenericArray::generate(|i| (i as u8).wrapping_mul(37).wrapping_add(0xb5));
        let mut ps: Vec<Option<usize>> = vec![None, Some(0), Some(1), Some(2), Some(3), Some(5), Some(7), Some(2 * n), Some(2 * n + 1), Some(2 * n + 2)];
        if n > 0 { for d in 1..=8 { if 2 * n >= d { ps.push(Some(2 * n - d)); } } ps.push(Some(n)); ps.push(Some(n + 1)); ps.push(Some(n | 3)); }
        for base in [2047usize, 2048, 2049, 4095, 4096, 4097, 1023, 1027, 6141] { if base <= 2 * n + 2 { ps.push(Some(base)); } }
        for p in ps {
            let (lo, up) = match p { None => (format!("{:x}", a), format!("{:X}", a)), Some(p) => (format!("{:.*x}", p, a), format!("{:.*X}", p, a)) };
            if lo != hex_model(&a, p, false) { return Some(format!("{{:x}} of GenericArray<u8, U{n}> with precision {p:?}: got {} chars ({:?}...), want {}", lo.len(), &lo[..lo.len().min(12)], hex_model(&a, p, false).len())); }
            if up != hex_model(&a, p, true) { return Some(format!("{{:X}} of GenericArray<u8, U{n}> with precision {p:?} differs from the bytes' digits")); }
            // "and nothing else": a width / fill / alignment flag adds no characters
            for w in [1usize, 2 * n + 3, 12] {
                let (wl, wz) = match p { None => (format!("{:>w$x}", a, w = w), format!("{:0w$X}", a, w = w)), Some(p) => (format!("{:>w$.p$x}", a, w = w, p = p), format!("{:0w$.p$X}", a, w = w, p = p)) };
                if wl != hex_model(&a, p, false) || wz != hex_model(&a, p, true) {
                    return Some(format!("GenericArray<u8, U{n}> with precision {p:?} and width {w}: {} / {} chars printed, the digits are {}", wl.len(), wz.len(), hex_model(&a, p, false).len()));
                }
            }
        }
    }} }
    one!(U0); one!(U1); one!(U2); one!(U3); one!(U7); one!(U15); one!(U16); one!(U17); one!(U31); one!(U32); one!(U33);
    one!(U1023); one!(U1024); one!(U1025); one!(U2047); one!(U2048); one!(U2049); one!(U3000); one!(U4096);
    None
}
// C08: the caller's function is applied once per index, in index order, and the operation does not panic on its own.
// Element types of non-zero and of zero size on either side (pointer-range loops degenerate for zero-sized types).
trait Mk: Sized { fn mk(i: usize) -> Self; fn id(&self) -> Option<usize>; const NAME: &'static str; }
impl Mk for u32 { fn mk(i: usize) -> u32 { i as u32 } fn id(&self) -> Option<usize> { Some(*self as usize) } const NAME: &'static str = "u32"; }
impl Mk for () { fn mk(_: usize) {} fn id(&self) -> Option<usize> { None } const NAME: &'static str = "()"; }
#[derive(Clone)] struct Zd;      // zero-sized, not Copy, with a destructor
impl Drop for Zd { fn drop(&mut self) {} }
impl Mk for Zd { fn mk(_: usize) -> Zd { Zd } fn id(&self) -> Option<usize> { None } const NAME: &'static str = "Zd (zero-sized, Drop)"; }
impl Mk for String { fn mk(i: usize) -> String { i.to_string() } fn id(&self) -> Option<usize> { self.parse().ok() } const NAME: &'static str = "String"; }
fn sem_order_one<A: Mk + Clone, B: Mk, N: ArrayLength>(op: &str) -> Option<String> {
    let n = N::USIZE;
    let log: RefCell<Vec<Option<usize>>> = RefCell::new(Vec::new());
    let r = catch_unwind(AssertUnwindSafe(|| {
        match op {
            "generate" => { let a: GenericArray<B, N> = GenericArray::generate(|i| { log.borrow_mut().push(Some(i)); B::mk(i) }); check_out::<B, N>(&a) }
            "box_generate" => { let a = Box::<GenericArray<B, N>>::generate(|i| { log.borrow_mut().push(Some(i)); B::mk(i) }); check_out::<B, N>(&a) }
            "map" => { let a: GenericArray<A, N> = GenericArray::generate(A::mk); let m: GenericArray<B, N> = a.map(|x| { let k = log.borrow().len(); log.borrow_mut().push(x.id()); B::mk(k) }); check_out::<B, N>(&m) }
            "ref.map" => { let a: GenericArray<A, N> = GenericArray::generate(A::mk); let m: GenericArray<B, N> = (&a).map(|x| { let k = log.borrow().len(); log.borrow_mut().push(x.id()); B::mk(k) }); check_out::<B, N>(&m) }
            "zip" => { let a: GenericArray<A, N> = GenericArray::generate(A::mk); let b: GenericArray<A, N> = GenericArray::generate(A::mk);
                       let m: GenericArray<B, N> = a.zip(b, |x, y| { let k = log.borrow().len(); log.borrow_mut().push(if x.id() == y.id() { x.id() } else { Some(usize::MAX) }); B::mk(k) });
                       if let Some(e) = check_out::<B, N>(&m) { return Some(e); }
                       // operands of two different kinds (with / without drop glue, sized / zero-sized): left A, right B
                       let before = log.borrow().len();
                       let a: GenericArray<A, N> = GenericArray::generate(A::mk); let b: GenericArray<B, N> = GenericArray::generate(B::mk);
                       let m: GenericArray<u32, N> = a.zip(b, |x, y| { let k = log.borrow().len() - before; let (xi, yi) = (x.id().unwrap_or(k), y.id().unwrap_or(k)); log.borrow_mut().push(Some(if xi == yi { xi + before - before } else { usize::MAX })); k as u32 });
                       for (i, v) in m.iter().enumerate() { if *v as usize != i { return Some(format!("mixed-kind zip: slot {i} holds the result of call #{v}")); } }
                       let l = log.borrow(); for (k, v) in l[before..].iter().enumerate() { if *v != Some(k) { return Some(format!("mixed-kind zip (left {} / right {}): call #{k} received elements of another index", A::NAME, B::NAME)); } }
                       drop(l); log.borrow_mut().truncate(before); None }
            "fold" => { let a: GenericArray<A, N> = GenericArray::generate(A::mk); let c = a.fold(0usize, |acc, x| { log.borrow_mut().push(x.id()); acc + 1 }); if c != n { Some(format!("fold returned {c} steps")) } else { None } }
            "clone" => { let a: GenericArray<A, N> = GenericArray::generate(A::mk); let c = a.clone(); for (i, x) in c.iter().enumerate() { if let Some(v) = x.id() { if v != i { return Some(format!("clone[{i}] = {v}")); } } } None }
            _ => None,
        }
    }));
    let who = format!("{op} on N={n} with input element {} / output element {}", A::NAME, B::NAME);
    match r {
        Err(_) => Some(format!("{who}: panicked although the caller's function never panics")),
        Ok(Some(m)) => Some(format!("{who}: {m}")),
        Ok(None) => {
            let l = log.borrow();
            if op != "clone" && l.len() != n { return Some(format!("{who}: the caller's function was called {} times instead of {n}", l.len())); }
            for (k, v) in l.iter().enumerate() { if let Some(v) = v { if *v != k { return Some(format!("{who}: call #{k} received element/index {v}")); } } }
            None
        }
    }
}
fn check_out<B: Mk, N: ArrayLength>(a: &GenericArray<B, N>) -> Option<String> {
    for (i, x) in a.iter().enumerate() { if let Some(v) = x.id() { if v != i { return Some(format!("slot {i} holds the result of call #{v}")); } } }
    None
}
fn sem_order<N: ArrayLength>(op: &str) -> Option<String> {
    sem_order_one::<u32, u32, N>(op).or_else(|| sem_order_one::<(), u32, N>(op)).or_else(|| sem_order_one::<u32, (), N>(op)).or_else(|| sem_order_one::<(), (), N>(op))
        .or_else(|| sem_order_one::<Zd, Zd, N>(op)).or_else(|| sem_order_one::<String, String, N>(op)).or_else(|| sem_order_one::<Zd, String, N>(op)).or_else(|| sem_order_one::<String, Zd, N>(op))
        .or_else(|| sem_order_one::<String, u32, N>(op)).or_else(|| sem_order_one::<u32, String, N>(op))
}

/// try_from_iter / from_iter: Ok exactly when the source yields exactly N items (truthful exact and absent size hints; sized and zero-sized items)
fn sem_collect<N: ArrayLength>() -> Option<String> { sem_collect_x::<u32, N>().or_else(|| sem_collect_x::<(), N>()).or_else(|| sem_collect_x::<String, N>()).or_else(|| sem_collect_x::<Zd, N>()) }
fn sem_collect_x<V: Mk, N: ArrayLength>() -> Option<String> {
    let n = N::USIZE;
    for count in 0..=n + 2 { for hinted in [true, false] {
        let r = catch_unwind(AssertUnwindSafe(|| {
            let v: Vec<V> = (0..count).map(V::mk).collect();
            if hinted { GenericArray::<V, N>::try_from_iter(v) } else { GenericArray::<V, N>::try_from_iter(v.into_iter().filter(|_| true)) }
        }));
        let who = format!("try_from_iter::<{}, U{n}> from {count} item(s), size hint {}", V::NAME, if hinted { "exact" } else { "(0, Some(count))" });
        match r {
            Err(_) => return Some(format!("{who}: panicked")),
            Ok(Ok(a)) => { if count != n { return Some(format!("{who}: Ok")); } for (i, x) in a.iter().enumerate() { if let Some(v) = x.id() { if v != i { return Some(format!("{who}: item {v} at index {i}")); } } } }
            Ok(Err(_)) => { if count == n { return Some(format!("{who}: LengthError")); } }
        }
    } }
    None
}
/// every mutable view starts at (and, for split, continues inside) the source storage - also when the view is empty
fn sem_mutviews() -> Option<String> {
    use generic_array::sequence::{Flatten, Split, Unflatten};
    macro_rules! split_at { ($N:ty, $K:ty) => {{
        let mut a: GenericArray<u32, $N> = GenericArray::generate(|i| i as u32);
        let base = a.as_mut_ptr() as usize;
        let (h, t) = Split::<u32, $K>::split(&mut a);
        let (hp, tp, hl, tl) = (h.as_ptr() as usize, t.as_ptr() as usize, h.len(), t.len());
        if hp != base || hl != <$K>::USIZE { return Some(format!("split::<U{}> of &mut GenericArray<u32, U{}>: head is not the first K elements of the source", <$K>::USIZE, <$N>::USIZE)); }
        if tp != base + 4 * <$K>::USIZE || tl != <$N>::USIZE - <$K>::USIZE { return Some(format!("split::<U{}> of &mut GenericArray<u32, U{}>: the tail ({} element(s)) starts at offset {} bytes instead of {}", <$K>::USIZE, <$N>::USIZE, tl, tp.wrapping_sub(base) as isize, 4 * <$K>::USIZE)); }
        let a2: GenericArray<u32, $N> = GenericArray::generate(|i| i as u32);
        let base2 = a2.as_ptr() as usize;
        let (h2, t2) = Split::<u32, $K>::split(&a2);
        if h2.as_ptr() as usize != base2 || t2.as_ptr() as usize != base2 + 4 * <$K>::USIZE { return Some(format!("split::<U{}> of &GenericArray<u32, U{}>: parts are not adjacent sub-ranges of the source", <$K>::USIZE, <$N>::USIZE)); }
    }} }
    split_at!(U4, U0); split_at!(U4, U1); split_at!(U4, U2); split_at!(U4, U4); split_at!(U1, U1); split_at!(U1, U0); split_at!(U0, U0); split_at!(U7, U7); split_at!(U7, U3);
    let mut nested: GenericArray<GenericArray<u32, U2>, U3> = GenericArray::generate(|_| GenericArray::generate(|_| 0));
    let nb = nested.as_mut_ptr() as usize;
    { let f: &mut GenericArray<u32, U6> = (&mut nested).flatten(); if f.as_ptr() as usize != nb || f.len() != 6 { return Some("flatten(&mut): not the same storage".into()); } }
    let mut flat: GenericArray<u32, U6> = GenericArray::generate(|_| 0);
    let fb = flat.as_mut_ptr() as usize;
    { let u: &mut GenericArray<GenericArray<u32, U2>, U3> = (&mut flat).unflatten(); if u.as_ptr() as usize != fb || u.len() != 3 { return Some("unflatten(&mut): not the same storage".into()); } }
    // empty shapes must not panic either
    let r = catch_unwind(AssertUnwindSafe(|| {
        let mut e0: GenericArray<u32, U0> = GenericArray::generate(|_| 0);
        let u: &mut GenericArray<GenericArray<u32, U2>, U0> = (&mut e0).unflatten();
        let l1 = u.len();
        let mut n0: GenericArray<GenericArray<u32, U2>, U0> = GenericArray::generate(|_| GenericArray::generate(|_| 0));
        let f: &mut GenericArray<u32, U0> = (&mut n0).flatten();
        let mut z0: GenericArray<GenericArray<u32, U0>, U3> = GenericArray::generate(|_| GenericArray::generate(|_| 0));
        let z0p = z0.as_mut_ptr() as usize;
        let f2: &mut GenericArray<u32, U0> = (&mut z0).flatten();
        // an empty view is still a view OF THE SOURCE: same address (a dangling `&mut []` is a different object)
        let moved = (f2.as_ptr() as usize != z0p) as usize * 1000;
        let z1: GenericArray<GenericArray<u32, U0>, U3> = GenericArray::generate(|_| GenericArray::generate(|_| 0));
        let f3: &GenericArray<u32, U0> = (&z1).flatten();
        let moved2 = (f3.as_ptr() as usize != z1.as_ptr() as usize) as usize * 1000;
        let mut e1: GenericArray<u32, U0> = GenericArray::generate(|_| 0);
        let e1p = e1.as_mut_ptr() as usize;
        let u1: &mut GenericArray<GenericArray<u32, U2>, U0> = (&mut e1).unflatten();
        let moved3 = (u1.as_ptr() as usize != e1p) as usize * 1000;
        l1 + f.len() + f2.len() + moved + moved2 + moved3
    }));
    match r { Err(_) => return Some("flatten / unflatten of an empty `&mut` array panicked".into()), Ok(k) if k >= 1000 => return Some("flatten / unflatten of an empty shape (inner length 0 / outer length 0) returns a view that does not start at the source's address".into()), Ok(k) if k != 0 => return Some("empty flatten / unflatten views are not empty".into()), _ => {} }
    let mut n = [0u32; 4];
    let nb2 = n.as_mut_ptr() as usize;
    { let g: &mut GenericArray<u32, U4> = (&mut n).into(); if g.as_ptr() as usize != nb2 { return Some("From<&mut [T; N]>: not the same storage".into()); } }
    { let g: &mut GenericArray<u32, U4> = GenericArray::from_mut_slice(&mut n[..]); if g.as_ptr() as usize != nb2 { return Some("from_mut_slice: not the same storage".into()); } }
    let mut e: [u32; 0] = [];
    let eb = e.as_mut_ptr() as usize;
    { let g: &mut GenericArray<u32, U0> = GenericArray::from_mut_slice(&mut e[..]); if g.as_ptr() as usize != eb { return Some("from_mut_slice (empty): not the source address".into()); } }
    None
}
/// const_transmute between types of different size must panic (its size check backs every by-value reinterpretation: from_array / into_array,
/// flatten / unflatten, arr!), and must return the same bytes for equal sizes
fn sem_transmute() -> Option<String> {
    fn returns<A: Copy + 'static, B: 'static>(a: A) -> bool {
        catch_unwind(AssertUnwindSafe(|| { let b: B = unsafe { generic_array::const_transmute::<A, B>(a) }; std::mem::forget(b); })).is_ok()
    }
    if returns::<[u8; 4], [u8; 2]>([1, 2, 3, 4]) { return Some("const_transmute::<[u8; 4], [u8; 2]> returns (source larger than target)".into()); }
    if returns::<[u8; 2], [u8; 4]>([1, 2]) { return Some("const_transmute::<[u8; 2], [u8; 4]> returns (source smaller than target)".into()); }
    if returns::<[u8; 7], [[u8; 2]; 3]>([0; 7]) { return Some("const_transmute::<[u8; 7], [[u8; 2]; 3]> returns (7 bytes as 6)".into()); }
    if returns::<u8, ()>(1) { return Some("const_transmute::<u8, ()> returns".into()); }
    if returns::<(), u8>(()) { return Some("const_transmute::<(), u8> returns".into()); }
    if !returns::<[u8; 4], u32>([1, 2, 3, 4]) { return Some("const_transmute between types of equal size panics".into()); }
    let w: u32 = unsafe { generic_array::const_transmute::<[u8; 4], u32>([1, 2, 3, 4]) };
    if w != u32::from_ne_bytes([1, 2, 3, 4]) { return Some("const_transmute::<[u8; 4], u32> changes the bytes".into()); }
    // the owned unflatten of a length that is not a multiple of the chunk length (Quot rounds down): must not return
    let seven: GenericArray<u8, U7> = GenericArray::generate(|i| i as u8);
    let r = catch_unwind(AssertUnwindSafe(|| { let u: GenericArray<GenericArray<u8, U2>, U3> = generic_array::sequence::Unflatten::<u8, U7, U2>::unflatten(seven); u.len() }));
    if r.is_ok() { return Some("unflatten of 7 elements into 3 chunks of 2 returns (one element silently lost)".into()); }
    None
}
/// a fresh by-value iterator holds all N elements: small N with sized elements, and lengths beyond 2^32 with zero-sized elements (no memory needed)
fn sem_into_iter() -> Option<String> {
    fn one<N: ArrayLength>() -> Option<String> {
        let a: GenericArray<(), N> = GenericArray::generate(|_| ());
        let mut it = a.into_iter();
        let n = N::USIZE;
        if it.len() != n || it.size_hint() != (n, Some(n)) || it.as_slice().len() != n { return Some(format!("into_iter of GenericArray<(), U{n}>: len() = {}, size_hint() = {:?}", it.len(), it.size_hint())); }
        if n > 0 && (it.next().is_none() || it.len() != n - 1) { return Some(format!("into_iter of GenericArray<(), U{n}>: next / next_back disagree with a queue of {n} elements")); }
        std::mem::forget(it);      // nothing to drop; an unoptimised slice drop loop over 2^32 unit elements would take minutes
        None
    }
    one::<U0>().or_else(one::<U1>).or_else(one::<U2>).or_else(one::<U5>).or_else(one::<U65536>)      // (lengths of 2^32 and more: the unoptimised build of this probe did not finish within 30 s - not swept)
        .or_else(|| { let a: GenericArray<u32, U5> = GenericArray::generate(|i| i as u32); let it = a.into_iter(); if it.len() != 5 { Some("into_iter of GenericArray<u32, U5>: len() != 5".into()) } else { None } })
}

fn semantic(sc: &str) -> Option<String> {
    if sc.starts_with("hex") { return sem_hex(); }
    if sc == "iter.into_iter" { return sem_into_iter(); }
    if sc.starts_with("const_transmute") {
        let quiet = std::panic::take_hook();
        std::panic::set_hook(Box::new(|_| {}));
        let r = sem_transmute();
        std::panic::set_hook(quiet);
        return r;
    }
    if sc.starts_with("mutprov") {
        let quiet = std::panic::take_hook();
        std::panic::set_hook(Box::new(|_| {}));
        let r = sem_mutviews();
        std::panic::set_hook(quiet);
        return r;
    }
    if let Some(op) = sc.strip_prefix("order.") {
        let quiet = std::panic::take_hook();
        std::panic::set_hook(Box::new(|_| {}));
        let r = sem_order::<U0>(op).or_else(|| sem_order::<U1>(op)).or_else(|| sem_order::<U2>(op)).or_else(|| sem_order::<U3>(op)).or_else(|| sem_order::<U4>(op)).or_else(|| sem_order::<U5>(op));
        std::panic::set_hook(quiet);
        return r;
    }
    macro_rules! all { ($f:ident) => { $f::<U0>().or_else(|| $f::<U1>()).or_else(|| $f::<U2>()).or_else(|| $f::<U3>()).or_else(|| $f::<U4>()).or_else(|| $f::<U5>()) } }
    let quiet = std::panic::take_hook();
    std::panic::set_hook(Box::new(|_| {}));
    let r = if sc.starts_with("iff.") { all!(sem_iff) } else if sc.starts_with("view.") { all!(sem_view) } else if sc.starts_with("chunks.") || sc.starts_with("unchunk.") { all!(sem_chunks) } else if sc.starts_with("iter.") { all!(sem_iter) } else if sc.starts_with("try_from_iter") { all!(sem_collect) } else { None };
    std::panic::set_hook(quiet);
    r
}

// ---------------------------------------------------------------------------------------------
// heap sources: try_from_vec / try_from_boxed_slice with every length around N and spare capacity 0, 1, 3
// ---------------------------------------------------------------------------------------------
fn heap_one<X: El, N: ArrayLength>(which: &str, want: &str) -> Option<String> {
    let n = N::USIZE;
    for len in [n.saturating_sub(1), n, n + 1] { for spare in [0usize, 1, 3] {
        if which == "heap.try_from_boxed_slice" && spare != 0 { continue; }
        reset(usize::MAX, usize::MAX);
        let mut bad: Option<String> = None;
        let panicked = tracked(|| {
            let mut v: Vec<X> = Vec::with_capacity(len + spare);
            for i in 0..len { v.push(X::new(i)); }
            let r = if which == "heap.try_from_vec" { GenericArray::<X, N>::try_from_vec(v) } else { GenericArray::<X, N>::try_from_boxed_slice(v.into_boxed_slice()) };
            match &r {
                Ok(b) => { if len != n { bad = Some("Ok for a source of another length".into()); } else if !X::ZST { for (i, e) in b.iter().enumerate() { if e.idv() != i { bad = Some(format!("element {i} of the boxed array reads {} (stale or moved buffer)", e.idv())); } } } }
                Err(_) => { if len == n { bad = Some("LengthError for a source of exactly N elements".into()); } }
            }
            drop(r);
        });
        let cfg = format!("scenario={which} element={} N={n} len={len} spare_capacity={spare}", if X::ZST { "zero-sized" } else { "sized" });
        if panicked { if want == "semantic" { return Some(format!("{cfg}: panicked")); } continue; }
        let mm = MISMATCH.load(SeqCst);
        if want == "dealloc-mismatch" && mm != 0 { return Some(format!("{cfg}: a block allocated with {} bytes was released as {} bytes", mm / 1_000_000, mm % 1_000_000 - 1)); }
        if want == "semantic" { if let Some(b) = bad { return Some(format!("{cfg}: {b}")); } }
        match (want, verdict()) {
            ("leak", Some((Kind::Leak, m))) | ("double-drop", Some((Kind::DoubleDrop, m))) | ("block-leak", Some((Kind::BlockLeak, m))) => return Some(format!("{cfg}: {m}")),
            _ => {}
        }
    } }
    None
}
fn heap_sweep(which: &str, want: &str) -> Option<String> {
    let quiet = std::panic::take_hook();
    std::panic::set_hook(Box::new(|_| {}));
    let r = heap_one::<E, U0>(which, want).or_else(|| heap_one::<E, U1>(which, want)).or_else(|| heap_one::<E, U2>(which, want)).or_else(|| heap_one::<E, U4>(which, want))
        .or_else(|| heap_one::<Zt, U0>(which, want)).or_else(|| heap_one::<Zt, U2>(which, want));
    std::panic::set_hook(quiet);
    r
}

// ---------------------------------------------------------------------------------------------
// serde: GAVisitor::visit_seq driven by a scripted SeqAccess (element count, hints, failing element, panicking call)
// ---------------------------------------------------------------------------------------------
mod sd {
    use super::*;
    use serde::de::{self, DeserializeSeed, Deserializer, SeqAccess, Visitor};
    use serde::Deserialize;
    use std::fmt;
    #[derive(Debug)]
    pub struct DErr;
    impl fmt::Display for DErr { fn fmt(&self, _f: &mut fmt::Formatter<'_>) -> fmt::Result { Ok(()) } }
    impl std::error::Error for DErr {}
    impl de::Error for DErr { fn custom<T: fmt::Display>(_m: T) -> Self { DErr } }
    pub struct TrD<X>(#[allow(dead_code)] pub X);
    impl<'de, X: El> Deserialize<'de> for TrD<X> {
        fn deserialize<D: Deserializer<'de>>(d: D) -> Result<TrD<X>, D::Error> {
            struct V<X>(std::marker::PhantomData<X>);
            impl<'de, X: El> Visitor<'de> for V<X> {
                type Value = TrD<X>;
                fn expecting(&self, _f: &mut fmt::Formatter) -> fmt::Result { Ok(()) }
                fn visit_u8<Er: de::Error>(self, v: u8) -> Result<TrD<X>, Er> { Ok(TrD(X::new(v as usize))) }
            }
            d.deserialize_u8(V::<X>(std::marker::PhantomData))
        }
    }
    pub struct ElemDe(pub u8);
    impl<'de> Deserializer<'de> for ElemDe {
        type Error = DErr;
        fn deserialize_any<V: Visitor<'de>>(self, _v: V) -> Result<V::Value, DErr> { Err(DErr) }
        fn deserialize_u8<V: Visitor<'de>>(self, v: V) -> Result<V::Value, DErr> { v.visit_u8(self.0) }
        // IgnoredAny-like placeholders (the crate's surplus probe) accept anything
        fn deserialize_ignored_any<V: Visitor<'de>>(self, v: V) -> Result<V::Value, DErr> { v.visit_unit() }
        serde::forward_to_deserialize_any! {
            bool i8 i16 i32 i64 i128 u16 u32 u64 u128 f32 f64 char str string bytes byte_buf option unit unit_struct
            newtype_struct seq tuple tuple_struct map struct enum identifier
        }
    }
    pub struct Script { pub count: usize, pub err_at: usize, pub hint_up: Option<usize>, pub hint_later: Option<usize>, pub produced: usize, pub hinted: bool, pub excluded: bool }
    pub struct ScriptDe<'a>(pub &'a mut Script);
    impl<'de, 'a> Deserializer<'de> for ScriptDe<'a> {
        type Error = DErr;
        fn deserialize_any<V: Visitor<'de>>(self, _v: V) -> Result<V::Value, DErr> { Err(DErr) }
        fn deserialize_tuple<V: Visitor<'de>>(self, _len: usize, v: V) -> Result<V::Value, DErr> { v.visit_seq(ScriptSeq(std::cell::RefCell::new(self.0))) }
        serde::forward_to_deserialize_any! {
            bool i8 i16 i32 i64 i128 u8 u16 u32 u64 u128 f32 f64 char str string bytes byte_buf option unit unit_struct
            newtype_struct seq tuple_struct map struct enum identifier ignored_any
        }
    }
    pub struct ScriptSeq<'a>(pub std::cell::RefCell<&'a mut Script>);
    impl<'de, 'a> SeqAccess<'de> for ScriptSeq<'a> {
        type Error = DErr;
        fn next_element_seed<S: DeserializeSeed<'de>>(&mut self, seed: S) -> Result<Option<S::Value>, DErr> {
            tick();
            let s = self.0.get_mut();
            if s.produced >= s.count { return Ok(None); }
            if s.produced == s.err_at { return Err(DErr); }
            s.produced += 1;
            seed.deserialize(ElemDe((s.produced - 1) as u8)).map(Some)
        }
        fn size_hint(&self) -> Option<usize> {
            tick();
            let mut s = self.0.borrow_mut();
            let h = if !s.hinted { s.hinted = true; s.hint_up } else { s.hint_later };
            // outside the claim: a source reporting "nothing left" while it still holds elements
            if h == Some(0) && s.produced < s.count { s.excluded = true; }
            h
        }
    }
    /// -> first configuration showing `want` ("leak" | "double-drop" | "semantic")
    pub fn sweep<X: El, N: ArrayLength>(want: &str) -> Option<String> {
        let n = N::USIZE;
        let hints = |m: usize| -> Vec<Option<usize>> { std::iter::once(None).chain((0..=m).map(Some)).collect() };
        for count in 0..=n + 2 { for err_at in 0..=n + 3 { for hint_up in hints(n + 2) { for hint_later in hints(1) {
            for pc in (0..(2 * n + 6)).chain([usize::MAX]) {
                if want == "semantic" && pc != usize::MAX { continue; }
                reset(usize::MAX, pc);
                let mut s = Script { count, err_at, hint_up, hint_later, produced: 0, hinted: false, excluded: false };
                let mut ok = false;
                let mut order_ok = true;
                let panicked = tracked(|| {
                    let r: Result<GenericArray<TrD<X>, N>, DErr> = GenericArray::deserialize(ScriptDe(&mut s));
                    if let Ok(a) = &r { ok = true; order_ok = X::ZST || a.iter().enumerate().all(|(i, e)| (e.0).idv() == i); }
                    drop(r);
                });
                let cfg = format!("scenario=serde.visit_seq element={} N={n} count={count} err_at={} hint_up={hint_up:?} hint_later={hint_later:?} panic_call={} panicked={panicked} ok={ok}", if X::ZST { "zero-sized" } else { "sized" },
                    if err_at > n + 2 { "-".to_string() } else { err_at.to_string() }, if pc == usize::MAX { "-".to_string() } else { pc.to_string() });
                match (want, verdict()) {
                    ("leak", Some((Kind::Leak, m))) | ("double-drop", Some((Kind::DoubleDrop, m))) => return Some(format!("{cfg}: {m}")),
                    _ => {}
                }
                if want == "semantic" && !panicked && !s.excluded {
                    let elem_err = err_at < count && err_at < n;
                    let hint_ok = hint_up.map_or(true, |h| h == n);
                    if ok && count != n { return Some(format!("{cfg}: accepted an input that does not offer exactly N elements")); }
                    if ok && elem_err { return Some(format!("{cfg}: accepted although an element failed to parse")); }
                    if ok && !hint_ok { return Some(format!("{cfg}: accepted although the up-front hint announced another length")); }
                    if ok && !order_ok { return Some(format!("{cfg}: elements out of order")); }
                    if !ok && n > 0 && hint_ok && count == n && !elem_err { return Some(format!("{cfg}: rejected a well-formed input of exactly N elements")); }
                    if s.produced > n + 1 { return Some(format!("{cfg}: read more than N + 1 elements")); }
                }
            }
        } } } }
        None
    }
}
fn serde_sweep(want: &str) -> Option<String> {
    let quiet = std::panic::take_hook();
    std::panic::set_hook(Box::new(|_| {}));
    let r = sd::sweep::<E, U0>(want).or_else(|| sd::sweep::<E, U1>(want)).or_else(|| sd::sweep::<E, U2>(want)).or_else(|| sd::sweep::<E, U3>(want)).or_else(|| sd::sweep::<E, U4>(want))
        .or_else(|| sd::sweep::<Zt, U0>(want)).or_else(|| sd::sweep::<Zt, U1>(want)).or_else(|| sd::sweep::<Zt, U2>(want)).or_else(|| sd::sweep::<Zt, U3>(want));
    std::panic::set_hook(quiet);
    r
}

/// remove / swap_remove with idx >= N: must panic and drop every element exactly once
fn oob_sweep(which: &str) -> Option<String> {
    macro_rules! one { ($N:ty) => {{
        let n = <$N>::USIZE;
        for idx in [n, n + 1, usize::MAX] {
            reset(usize::MAX, usize::MAX);
            let a: GenericArray<E, $N> = GenericArray::generate(E::new);
            let swap = which.starts_with("swap");
            let panicked = tracked(move || { if swap { let _ = a.swap_remove(idx); } else { let _ = a.remove(idx); } });
            if !panicked { return Some(format!("{which}({idx}) on GenericArray<_, U{n}> returned instead of panicking")); }
            if let Some((k, msg)) = verdict() { return Some(format!("{which}({idx}) on GenericArray<_, U{n}> panicked, then {k:?}: {msg}")); }
        }
    }} }
    let quiet = std::panic::take_hook();
    std::panic::set_hook(Box::new(|_| {}));
    let r = (|| { one!(U1); one!(U2); one!(U3); one!(U4); None })();
    std::panic::set_hook(quiet);
    r
}

/// what the compiled crate really does for the grid of `validate.iter` (translator validation)
fn validate_iter() {
    macro_rules! one { ($N:ty) => {{
        let n = <$N>::USIZE;
        for f in 0..=n { for b in 0..=(n - f) { for (which, args) in [("nth", n + 2), ("nth_back", n + 2), ("next", 1), ("next_back", 1)] { for k in 0..args {
            reset(usize::MAX, usize::MAX);
            let mut it = position::<E, $N>(f, b);
            let before = DROPS.with(|d| *d.borrow());
            let r = match which { "nth" => it.nth(k), "nth_back" => it.nth_back(k), "next" => it.next(), _ => it.next_back() };
            let ret = r.as_ref().map(|e| e.0);
            std::mem::forget(r);
            let after = DROPS.with(|d| *d.borrow());
            let dropped: Vec<usize> = (0..n).filter(|&i| after[i] > before[i]).collect();
            let rem = it.as_slice().len();
            // the remaining slice starts at the element with the smallest id still inside
            let first = it.as_slice().first().map(|e| e.0);
            let (index, index_back) = match first { Some(x) => (x, x + rem), None => (usize::MAX, usize::MAX) };
            println!("V n={n} front={f} back={b} op={which} arg={k} ret={} len={rem} index={} index_back={} dropped={:?}", ret.map_or("None".to_string(), |x| x.to_string()),
                if index == usize::MAX { "-".to_string() } else { index.to_string() }, if index_back == usize::MAX { "-".to_string() } else { index_back.to_string() }, dropped);
            std::mem::forget(it);
        } } } }
    }} }
    one!(U0); one!(U1); one!(U2); one!(U3);
}

/// every `&mut`-to-`&mut` view of the API, written through element by element (run under Miri with Tree Borrows: a view whose pointer was
/// derived through a shared borrow is reported there as undefined behaviour; natively the writes simply land)
fn mutprov() {
    use core::borrow::BorrowMut;
    use generic_array::sequence::{Flatten, Split, Unflatten};
    macro_rules! fill { ($s:expr, $v:expr) => { for x in $s.iter_mut() { *x = $v; } } }
    let mut a: GenericArray<u32, U4> = GenericArray::generate(|i| i as u32);
    fill!(a.as_mut_slice(), 1); assert!(a.iter().all(|x| *x == 1));
    { let s: &mut [u32] = &mut *a; fill!(s, 2); } assert!(a.iter().all(|x| *x == 2));
    { let s: &mut [u32] = a.as_mut(); fill!(s, 3); } assert!(a.iter().all(|x| *x == 3));
    { let s: &mut [u32] = a.borrow_mut(); fill!(s, 4); } assert!(a.iter().all(|x| *x == 4));
    { let s: &mut [u32; 4] = a.as_mut(); fill!(s, 5); } assert!(a.iter().all(|x| *x == 5));
    for x in &mut a { *x = 6; } assert!(a.iter().all(|x| *x == 6));
    let mut n = [0u32; 4];
    { let g: &mut GenericArray<u32, U4> = (&mut n).into(); fill!(g, 7); } assert!(n.iter().all(|x| *x == 7));
    { let g: &mut GenericArray<u32, U4> = GenericArray::from_mut_slice(&mut n[..]); fill!(g, 8); } assert!(n.iter().all(|x| *x == 8));
    { let g: &mut GenericArray<u32, U4> = GenericArray::try_from_mut_slice(&mut n[..]).unwrap(); fill!(g, 9); } assert!(n.iter().all(|x| *x == 9));
    { let g: &mut GenericArray<u32, U4> = <&mut GenericArray<u32, U4>>::try_from(&mut n[..]).unwrap(); fill!(g, 10); } assert!(n.iter().all(|x| *x == 10));
    let mut v = [0u32; 7];
    { let (c, r) = GenericArray::<u32, U3>::chunks_from_slice_mut(&mut v); for g in c.iter_mut() { fill!(g, 11); } fill!(r, 12); }
    assert!(v[..6].iter().all(|x| *x == 11) && v[6] == 12);
    let mut cs: [GenericArray<u32, U2>; 3] = [GenericArray::generate(|_| 0), GenericArray::generate(|_| 0), GenericArray::generate(|_| 0)];
    { let s = GenericArray::slice_from_chunks_mut(&mut cs); fill!(s, 13); } assert!(cs.iter().all(|g| g.iter().all(|x| *x == 13)));
    { let s: &mut [[u32; 2]] = GenericArray::<u32, U2>::into_chunks_mut(&mut cs); for c in s.iter_mut() { fill!(c, 14); } } assert!(cs.iter().all(|g| g.iter().all(|x| *x == 14)));
    let mut ns = [[0u32; 2]; 3];
    { let s: &mut [GenericArray<u32, U2>] = GenericArray::<u32, U2>::from_chunks_mut(&mut ns); for c in s.iter_mut() { fill!(c, 15); } } assert!(ns.iter().all(|g| g.iter().all(|x| *x == 15)));
    let mut nested: GenericArray<GenericArray<u32, U2>, U3> = GenericArray::generate(|_| GenericArray::generate(|_| 0));
    { let f: &mut GenericArray<u32, U6> = (&mut nested).flatten(); fill!(f, 16); } assert!(nested.iter().all(|g| g.iter().all(|x| *x == 16)));
    let mut flat: GenericArray<u32, U6> = GenericArray::generate(|_| 0);
    { let u: &mut GenericArray<GenericArray<u32, U2>, U3> = (&mut flat).unflatten(); for g in u.iter_mut() { fill!(g, 17); } } assert!(flat.iter().all(|x| *x == 17));
    { let (h, t): (&mut GenericArray<u32, U2>, &mut GenericArray<u32, U4>) = Split::<u32, U2>::split(&mut flat); fill!(h, 18); fill!(t, 19); }
    assert!(flat[..2].iter().all(|x| *x == 18) && flat[2..].iter().all(|x| *x == 19));
    { let (h, t): (&mut GenericArray<u32, U6>, &mut GenericArray<u32, U0>) = Split::<u32, U6>::split(&mut flat); fill!(h, 20); assert!(t.is_empty()); }
    assert!(flat.iter().all(|x| *x == 20));
    // the fallible reinterpretations with every wrong length: no reference to a whole array may even be *created* over too few elements
    let mut w = [0u32; 6];
    for l in [0usize, 1, 3, 5, 6] {
        assert!(<&mut GenericArray<u32, U4>>::try_from(&mut w[..l]).is_err());
        assert!(<&GenericArray<u32, U4>>::try_from(&w[..l]).is_err());
        assert!(GenericArray::<u32, U4>::try_from_mut_slice(&mut w[..l]).is_err());
        assert!(GenericArray::<u32, U4>::try_from_slice(&w[..l]).is_err());
    }
    // ... including slices that end with their allocation (a longer reference would be dangling)
    assert!(<&mut GenericArray<u32, U4>>::try_from(&mut w[4..]).is_err());
    assert!(<&mut GenericArray<u32, U4>>::try_from(&mut w[6..]).is_err());
    assert!(GenericArray::<u32, U4>::try_from_mut_slice(&mut w[5..]).is_err());
    assert!(GenericArray::<u32, U4>::try_from_slice(&w[3..]).is_err());
    let mut one = vec![7u32];
    assert!(<&mut GenericArray<u32, U4>>::try_from(&mut one[..]).is_err());
    assert!(<&GenericArray<u32, U4>>::try_from(&one[..]).is_err());
    assert!(<&mut GenericArray<u32, U4>>::try_from(&mut w[1..5]).is_ok());
    println!("mutprov: every mutable view accepted the writes");
}

fn on_small_stack<F: FnOnce() + Send + 'static>(f: F) {
    std::thread::Builder::new().stack_size(256 * 1024).spawn(f).unwrap().join().unwrap();
}

fn stack_probe(scenario: &str) {
    macro_rules! build {
        ($t:ty, $n:ty, $mk:expr) => {{
            on_small_stack(|| {
                let mk = $mk;
                let total: usize = match scenario_kind() {
                    0 => { let b: Box<GenericArray<$t, $n>> = <Box<GenericArray<$t, $n>> as GenericSequence<$t>>::generate(|i| mk(i)); std::hint::black_box(&b); b.len() }
                    1 => { let b: Box<GenericArray<$t, $n>> = GenericArray::<$t, $n>::try_boxed_from_iter((0..<$n as Unsigned>::USIZE).map(|i| mk(i))).ok().unwrap(); std::hint::black_box(&b); b.len() }
                    2 => { let b: Box<GenericArray<$t, $n>> = (0..<$n as Unsigned>::USIZE).map(|i| mk(i)).collect(); std::hint::black_box(&b); b.len() }
                    3 => { let b: Box<GenericArray<$t, $n>> = <Box<GenericArray<$t, $n>> as GenericSequence<$t>>::generate(|i| mk(i)); let c: Box<GenericArray<$t, $n>> = b.map(|x| x); std::hint::black_box(&c); c.len() }
                    _ => unreachable!(),
                };
                assert_eq!(total, <$n as Unsigned>::USIZE);
            });
        }};
    }
    STACK_SCEN.store(match scenario { "stack.box_generate" => 0, "stack.try_boxed_from_iter" => 1, "stack.box_from_iter" => 2, "stack.box.map" => 3, _ => 0 }, std::sync::atomic::Ordering::SeqCst);
    build!([u64; 2048], U64, |i: usize| [i as u64; 2048]);      // 1 MiB, 64 elements of 16 KiB
    build!([u8; 4096], U128, |i: usize| [i as u8; 4096]);       // 512 KiB
    build!([u64; 128], U1024, |i: usize| [i as u64; 128]);      // 1 MiB
    build!(u64, U65536, |i: usize| i as u64);                   // 512 KiB of plain words
    build!([u8; 1024], U4096, |i: usize| [i as u8; 1024]);      // 4 MiB
}
static STACK_SCEN: std::sync::atomic::AtomicU8 = std::sync::atomic::AtomicU8::new(0);
fn scenario_kind() -> u8 { STACK_SCEN.load(std::sync::atomic::Ordering::SeqCst) }

fn main() {
    let args: Vec<String> = std::env::args().collect();
    if args[1] == "mutprov" && args.get(2).map(|s| s.as_str()) != Some("semantic") { mutprov(); return; }
    if args[1] == "validate.iter" { validate_iter(); return; }
    if args[1].ends_with(".oob") {
        match oob_sweep(&args[1]) {
            Some(msg) => { println!("REPRODUCED scenario={} {msg}", args[1]); std::process::exit(1) }
            None => { println!("NOT-REPRODUCED scenario={}: out-of-bounds remove panics and drops every element once for N <= 4", args[1]); return; }
        }
    }
    if args[1].starts_with("stack.") {
        // C15: the boxed constructors build arrays far larger than the thread's stack. Each construction runs on a thread with a 256 KiB
        // stack; an implementation that takes the array through a stack frame dies here (SIGSEGV / abort: reported by the caller as
        // "the native run died"). Elements are small (<= 4 KiB) so that the generator's own return slot is not what overflows.
        stack_probe(&args[1]);
        println!("NOT-REPRODUCED scenario={} kind=stack: arrays of 0.5 - 4 MiB (N in 64..=65536, elements of 1 B - 16 KiB) built on a 256 KiB stack", args[1]);
        return;
    }
    if args[1].starts_with("heap.") {
        match heap_sweep(&args[1], &args[2]) {
            Some(msg) => { println!("REPRODUCED {msg}"); std::process::exit(1) }
            None => { println!("NOT-REPRODUCED scenario={} kind={}: native sweep over N in {{0,1,2,4}}, source length N-1..=N+1, spare capacity 0/1/3, sized and zero-sized elements", args[1], args[2]); return; }
        }
    }
    if args[1].starts_with("serde.") {
        match serde_sweep(&args[2]) {
            Some(msg) => { println!("REPRODUCED {msg}"); std::process::exit(1) }
            None => { println!("NOT-REPRODUCED scenario={} kind={}: native sweep over N <= 4, element count <= N + 2, every hint, failing element and panicking call", args[1], args[2]); return; }
        }
    }
    if args[2] == "semantic" {
        match semantic(&args[1]) {
            Some(msg) => { println!("REPRODUCED scenario={} {msg}", args[1]); std::process::exit(1) }
            None => { println!("NOT-REPRODUCED scenario={} kind=semantic: the native differential sweep (N <= 5) agrees with the reference model", args[1]); return; }
        }
    }
    let want = match args[2].as_str() { "double-drop" => Kind::DoubleDrop, "leak" => Kind::Leak, "block-leak" => Kind::BlockLeak, "zero-size-alloc" => Kind::ZeroSize, k => { eprintln!("unknown kind {k}"); std::process::exit(3) } };
    let variants: Vec<String> = match args[1].as_str() {
        "zip" => ["zip", "zip.left_plain", "zip.right_plain", "zip.ref_owned", "zip.owned_ref"].iter().map(|s| s.to_string()).collect(),
        "map" => vec!["map".into(), "map.ref".into()],
        "fold" => vec!["fold".into(), "fold.ref".into(), "fold.acc".into()],
        "iter.fold" => vec!["iter.fold".into(), "iter.fold.acc".into()],
        "iter.overrides" => ["find", "find.none", "rfind", "rfind.none", "position", "position.none", "any", "any.none", "all", "for_each", "try_fold", "find_map", "skip_while"].iter().map(|s| format!("iter.ov.{s}")).collect(),
        "box.map" => vec!["box.map".into(), "box.map.plain".into()],
        "try_boxed_from_iter" => vec!["try_boxed_from_iter".into(), "try_boxed_from_iter.long".into(), "try_boxed_from_iter.short".into()],
        "try_from_iter" => vec!["try_from_iter".into(), "try_from_iter.long".into(), "try_from_iter.short".into(), "try_from_iter.exact".into()],
        "box.fold" => vec!["box.fold".into(), "box.fold.plain".into()],
        s => vec![s.to_string()],
    };
    let mut r = None;
    for v in variants {
        let cfg = Cfg { scenario: v, want };
        r = sweep::<E, U0>(&cfg).or_else(|| sweep::<E, U1>(&cfg)).or_else(|| sweep::<E, U2>(&cfg)).or_else(|| sweep::<E, U3>(&cfg)).or_else(|| sweep::<E, U4>(&cfg))
            .or_else(|| sweep::<Zt, U1>(&cfg)).or_else(|| sweep::<Zt, U2>(&cfg)).or_else(|| sweep::<Zt, U3>(&cfg)).or_else(|| sweep::<Zt, U4>(&cfg))
            // a 128-byte array (size thresholds of "large array" fast paths); the iterator sweeps stay small (positions x skips x panic points)
            .or_else(|| if cfg.scenario.starts_with("iter.") { None } else { sweep::<E, U16>(&cfg) });
        if r.is_some() { break; }
    }
    let cfg = Cfg { scenario: args[1].clone(), want };
    match r {
        Some(msg) => { println!("REPRODUCED {msg}"); std::process::exit(1) }
        None => { println!("NOT-REPRODUCED scenario={} kind={:?} over N<=4 (and N = 16 for the non-iterator operations), every position, skip count and panic point", cfg.scenario, cfg.want); }
    }
}
