#!/usr/bin/env python3-vt
"""run.py <mir.txt> <srcroot> <nmax> <scenario>...   -> JSON lines, one per scenario"""
import sys, json, os
sys.path.insert(0, os.path.dirname(os.path.abspath(__file__)))
import mirsym, scenarios

CATALOG = {
    'iter.nth': lambda f, s, n: scenarios.iter_skip(f, s, n, which='nth', name='iter.nth'),
    'iter.nth_back': lambda f, s, n: scenarios.iter_skip(f, s, n, which='nth_back', name='iter.nth_back'),
    'iter.next': lambda f, s, n: scenarios.iter_simple(f, s, n, which='next', name='iter.next'),
    'iter.next_back': lambda f, s, n: scenarios.iter_simple(f, s, n, which='next_back', name='iter.next_back'),
    'iter.len': lambda f, s, n: scenarios.iter_simple(f, s, n, which='len', name='iter.len'),
    'iter.size_hint': lambda f, s, n: scenarios.iter_simple(f, s, n, which='size_hint', name='iter.size_hint'),
    'iter.count': lambda f, s, n: scenarios.iter_simple(f, s, n, which='count', name='iter.count'),
    'iter.last': lambda f, s, n: scenarios.iter_simple(f, s, n, which='last', name='iter.last'),
    'iter.as_slice': lambda f, s, n: scenarios.iter_simple(f, s, n, which='as_slice', name='iter.as_slice'),
    'iter.drop': lambda f, s, n: scenarios.iter_simple(f, s, n, which='drop', name='iter.drop'),
    'iter.clone': lambda f, s, n: scenarios.iter_clone(f, s, n, name='iter.clone'),
    'generate': lambda f, s, n: scenarios.op_generate(f, s, n, name='generate'),
    'box_generate': lambda f, s, n: scenarios.op_generate(f, s, n, boxed=True, name='box_generate'),
    'map': lambda f, s, n: scenarios.op_map(f, s, n, name='map'),
    'fold': lambda f, s, n: scenarios.op_fold(f, s, n, name='fold'),
    'zip': lambda f, s, n: scenarios.op_zip_owned(f, s, n, name='zip'),
    'drop.ArrayConsumer': lambda f, s, n: scenarios.guard_drop(f, s, n, which='ArrayConsumer', name='drop.ArrayConsumer'),
    'drop.ArrayBuilder': lambda f, s, n: scenarios.guard_drop(f, s, n, which='ArrayBuilder', name='drop.ArrayBuilder'),
    'drop.IntrusiveArrayBuilder': lambda f, s, n: scenarios.guard_drop(f, s, n, which='IntrusiveArrayBuilder', name='drop.IntrusiveArrayBuilder'),
    'try_from_iter': lambda f, s, n: scenarios.op_try_from_iter(f, s, n, name='try_from_iter'),
}

if __name__ == '__main__':
    fns = mirsym.parse_mir(open(sys.argv[1]).read())
    src, nmax = sys.argv[2], int(sys.argv[3])
    for sc in sys.argv[4:]:
        r = CATALOG[sc](fns, src, nmax)
        r.name = sc
        print(json.dumps(r.to_dict()), flush=True)
