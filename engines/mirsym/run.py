#!/usr/bin/env python3-vt
"""run.py <mir.txt> <srcroot> <nmax> <scenario>...   -> JSON lines, one per scenario"""
import sys, json, os
sys.path.insert(0, os.path.dirname(os.path.abspath(__file__)))
import mirsym, scenarios

CATALOG = {
    'iter.nth': lambda f, s, n: scenarios.iter_skip(f, s, n, which='nth', name='iter.nth'),
    'iter.nth_back': lambda f, s, n: scenarios.iter_skip(f, s, n, which='nth_back', name='iter.nth_back'),
    'iter.next': lambda f, s, n: scenarios.iter_simple(f, s, n, which='next', name='iter.next'),
    'iter.next_back': lambda f, s, n: scenarios.iter_simple(f, s, n, which='next_back', name='iter.next_back'),
    'iter.len': lambda f, s, n: scenarios.iter_simple(f, s, n, which='len', name='iter.len'),
    'iter.size_hint': lambda f, s, n: scenarios.iter_simple(f, s, n, which='size_hint', name='iter.size_hint'),
    'iter.count': lambda f, s, n: scenarios.iter_simple(f, s, n, which='count', name='iter.count'),
    'iter.last': lambda f, s, n: scenarios.iter_simple(f, s, n, which='last', name='iter.last'),
    'iter.as_slice': lambda f, s, n: scenarios.iter_simple(f, s, n, which='as_slice', name='iter.as_slice'),
    'iter.drop': lambda f, s, n: scenarios.iter_simple(f, s, n, which='drop', name='iter.drop'),
    'iter.clone': lambda f, s, n: scenarios.iter_clone(f, s, n, name='iter.clone'),
    'generate': lambda f, s, n: scenarios.op_generate(f, s, n, name='generate'),
    'box_generate': lambda f, s, n: scenarios.op_generate(f, s, n, boxed=True, name='box_generate'),
    'map': lambda f, s, n: scenarios.op_map(f, s, n, name='map'),
    'fold': lambda f, s, n: scenarios.op_fold(f, s, n, name='fold'),
    'zip': lambda f, s, n: scenarios.op_zip_owned(f, s, n, name='zip'),
    'drop.ArrayConsumer': lambda f, s, n: scenarios.guard_drop(f, s, n, which='ArrayConsumer', name='drop.ArrayConsumer'),
    'drop.ArrayBuilder': lambda f, s, n: scenarios.guard_drop(f, s, n, which='ArrayBuilder', name='drop.ArrayBuilder'),
    'drop.IntrusiveArrayBuilder': lambda f, s, n: scenarios.guard_drop(f, s, n, which='IntrusiveArrayBuilder', name='drop.IntrusiveArrayBuilder'),
    'try_from_iter': lambda f, s, n: scenarios.op_try_from_iter(f, s, n, name='try_from_iter'),
}
for w in ('from_slice', 'try_from_slice', 'from_mut_slice', 'try_from_mut_slice', 'TryFrom', 'TryFromMut'):
    for c in (False, True):
        if c and w.startswith('TryFrom'):
            continue
        CATALOG['iff.%s%s' % (w, '.ctfe' if c else '')] = (lambda w, c: lambda f, s, n: scenarios.len_iff(f, s, n, which=('TryFrom_mut' if w == 'TryFromMut' else w), ctfe=c))(w, c)
for w in ('as_slice', 'as_mut_slice', 'deref', 'deref_mut', 'as_ref', 'as_mut', 'borrow', 'borrow_mut', 'into_iter_ref', 'into_iter_mut'):
    CATALOG['view.' + w] = (lambda w: lambda f, s, n: scenarios.views(f, s, n, which=w))(w)
for w in ('as_slice', 'as_mut_slice'):
    CATALOG['view.%s.ctfe' % w] = (lambda w: lambda f, s, n: scenarios.views(f, s, n, which=w, ctfe=True))(w)
for w in ('chunks_from_slice', 'chunks_from_slice_mut'):
    for c in (False, True):
        CATALOG['chunks.%s%s' % (w, '.ctfe' if c else '')] = (lambda w, c: lambda f, s, n: scenarios.chunks(f, s, n, which=w, ctfe=c))(w, c)
for w in ('slice_from_chunks', 'slice_from_chunks_mut'):
    for c in (False, True):
        CATALOG['unchunk.%s%s' % (w, '.ctfe' if c else '')] = (lambda w, c: lambda f, s, n: scenarios.unchunk(f, s, n, which=w, ctfe=c))(w, c)

for w in ('eq', 'partial_cmp', 'cmp', 'hash', 'fmt'):
    CATALOG['delegation.' + w] = (lambda w: lambda f, s, n: scenarios.delegation(f, s, n, which=w))(w)
CATALOG['delegation.iter_fmt'] = lambda f, s, n: scenarios.iter_debug(f, s, n)

for w in ('remove', 'swap_remove'):
    CATALOG[w + '.oob'] = (lambda w: lambda f, s, n: scenarios.remove_oob(f, s, n, which=w))(w)

CATALOG['ref.map'] = lambda f, s, n: scenarios.ref_map(f, s, n, which='map')
CATALOG['clone'] = lambda f, s, n: scenarios.ref_map(f, s, n, which='clone', name='clone')

for nm, lo, hi in (('hex.small', 0, 15), ('hex.medium', 16, 1024), ('hex.large', 1025, 4200), ('hex.xlarge', 4201, 8300)):
    CATALOG[nm] = (lambda nm, lo, hi: lambda f, s, n: scenarios.hex_arith(f, s, n, lo=lo, hi=hi, name=nm))(nm, lo, hi)

CATALOG['zip.owned_ref'] = lambda f, s, n: scenarios.zip_mixed(f, s, n, which='owned_ref', name='zip.owned_ref')
CATALOG['zip.ref_owned'] = lambda f, s, n: scenarios.zip_mixed(f, s, n, which='ref_owned', name='zip.ref_owned')

CATALOG['iter.fold'] = lambda f, s, n: scenarios.iter_fold(f, s, n, which='fold', name='iter.fold')
CATALOG['iter.rfold'] = lambda f, s, n: scenarios.iter_fold(f, s, n, which='rfold', name='iter.rfold')

CATALOG['try_boxed_from_iter'] = lambda f, s, n: scenarios.op_try_from_iter(f, s, n, name='try_boxed_from_iter', boxed=True)
CATALOG['heap.try_from_vec'] = lambda f, s, n: scenarios.from_heap(f, s, n, which='try_from_vec', name='heap.try_from_vec')
CATALOG['heap.try_from_boxed_slice'] = lambda f, s, n: scenarios.from_heap(f, s, n, which='try_from_boxed_slice', name='heap.try_from_boxed_slice')
CATALOG['iter.clone_from'] = lambda f, s, n: scenarios.iter_clone_from(f, s, n, name='iter.clone_from')
def _heap_only(fn):
    def w(f, s, n):
        os.environ['MIRSYM_HEAP_ONLY'] = '1'
        try:
            r = fn(f, s, n)
        finally:
            del os.environ['MIRSYM_HEAP_ONLY']
        # the stack.* scenarios state one obligation only (no whole-array frame); everything else about the same operations is decided
        # by the scenarios of the same name without the prefix, under the properties they belong to
        if r.verdict in ('pass', 'violation'):
            r.findings = [x for x in r.findings if 'stack frame' in x['kind']]
            r.verdict = 'violation' if r.findings else 'pass'
        r.props = ['C15']
        r.bounds += '; obligation: no frame with a by-value array of >= 256 KiB on a feasible path (size_of::<T>() symbolic)'
        return r
    return w
CATALOG['stack.box_generate'] = _heap_only(lambda f, s, n: scenarios.op_generate(f, s, n, boxed=True, name='stack.box_generate'))
CATALOG['stack.try_boxed_from_iter'] = _heap_only(lambda f, s, n: scenarios.op_try_from_iter(f, s, n, name='stack.try_boxed_from_iter', boxed=True))
CATALOG['stack.box_from_iter'] = _heap_only(lambda f, s, n: scenarios.op_try_from_iter(f, s, n, name='stack.box_from_iter', boxed=True, entry='<Box<GenericArray<T, N>> as FromIterator<T>>::from_iter'))
CATALOG['stack.box.map'] = _heap_only(lambda f, s, n: scenarios.box_ops(f, s, n, which='map', name='stack.box.map'))
CATALOG['iter.into_iter'] = lambda f, s, n: scenarios.iter_into_iter(f, s, n, name='iter.into_iter')
CATALOG['iter.overrides'] = lambda f, s, n: scenarios.iter_overrides(f, s, n, name='iter.overrides')
CATALOG['box.map'] = lambda f, s, n: scenarios.box_ops(f, s, n, which='map', name='box.map')
CATALOG['box.fold'] = lambda f, s, n: scenarios.box_ops(f, s, n, which='fold', name='box.fold')
CATALOG['clone_from'] = lambda f, s, n: scenarios.clone_from(f, s, n, name='clone_from')
CATALOG['mutprov'] = lambda f, s, n: scenarios.mut_views(f, s, n, name='mutprov')
CATALOG['const_transmute'] = lambda f, s, n: scenarios.transmute_guard(f, s, n, name='const_transmute')
CATALOG['const_transmute.ctfe'] = lambda f, s, n: scenarios.transmute_guard(f, s, n, ctfe=True, name='const_transmute.ctfe')

if __name__ == '__main__':
    MIR_TEXT = open(sys.argv[1]).read()
    CATALOG['serde.visit_seq'] = lambda f, s, n: scenarios.serde_visit_seq(f, s, n, name='serde.visit_seq', mir_text=MIR_TEXT)
    fns = mirsym.parse_mir(MIR_TEXT)
    src, nmax = sys.argv[2], int(sys.argv[3])
    if sys.argv[4:] == ['validate.iter']:
        mirsym.set_mode('bv')
        print(json.dumps({'name': 'validate.iter', 'predictions': scenarios.validate_iter(fns, src, nmax)}))
        sys.exit(0)
    for sc in sys.argv[4:]:
        # multiply/divide kernels: mathematical integers with explicit wrap conditions (see mirsym.MODE); everything else 64-bit bit-vectors
        mode = 'int' if sc.startswith(('chunks.', 'unchunk.')) else 'bv'
        os.environ.pop('MIRSYM_INDUCTIVE', None)
        os.environ.pop('MIRSYM_ORDER', None)
        full_name = sc
        if sc.startswith('order.'):      # C08: the same scenario with the once-per-index / in-order obligations switched on
            os.environ['MIRSYM_ORDER'] = '1'
            sc = sc[len('order.'):]
        if sc.endswith('@ind'):
            os.environ['MIRSYM_INDUCTIVE'] = 'strict'
            sc_run = sc[:-4]
        elif sc.endswith('@int'):
            mode, sc_run = 'int', sc[:-4]
        elif sc.endswith('@bv'):
            mode, sc_run = 'bv', sc[:-3]
        elif not sc.endswith('@ind'):
            sc_run = sc
        mirsym.set_mode(mode)
        del mirsym.RANGE[:]
        del mirsym.XDUMP[:]
        r = CATALOG[sc_run](fns, src, nmax)
        if r.verdict == 'inconclusive' and 'solver returned unknown' in (r.reason or '') and mode == 'bv':
            # bit-blasting a symbolic product / quotient did not finish: decide the same obligations over mathematical integers in [0, 2^64)
            # with the wrap conditions explicit (the encoding the chunk scenarios use by default)
            mode = 'int'
            mirsym.set_mode(mode)
            del mirsym.RANGE[:]
            del mirsym.XDUMP[:]
            r = CATALOG[sc_run](fns, src, nmax)
        if sc.endswith('@ind'):
            r.bounds = 'ALL 64-bit N: the pipeline\'s internal iteration is summarised by an automatically instantiated and solver-checked loop invariant (induction over the iteration number) instead of unrolling; ' + r.bounds.replace('N <= %d' % nmax, 'no bound on N')
        r.bounds += ' [numeric back-end: %s]' % ('mathematical integers in [0, 2^64) with explicit wrap conditions' if mode == 'int' else '64-bit bit-vectors')
        r.name = full_name
        d = r.to_dict()
        if mirsym.XDUMP_ON[0]:
            # the obligations z3 discharged, decided again by cvc5 and by the system's z3 4.8.12 (see xcheck.py)
            import xcheck
            xc = xcheck.run(mirsym.XDUMP, cap=int(os.environ.get('MIRSYM_XCHECK_CAP', '0')))
            d['xcheck'] = xc
            if xc['disagreements'] and d['verdict'] == 'pass':
                d['verdict'], d['reason'] = 'inconclusive', 'solvers disagree on %d discharged obligation(s): %s' % (len(xc['disagreements']), json.dumps(xc['disagreements'][0])[:500])
        print(json.dumps(d), flush=True)
