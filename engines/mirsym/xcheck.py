"""Solver cross-check: the obligations z3 (python API) discharged are exported as SMT-LIB 2 and decided again by two independent
solver builds - cvc5 and the system's z3 4.8.12 - in one incremental process each (push / pop per query). An `unsat` answer from
z3 that another solver answers `sat` is a disagreement (the scenario becomes inconclusive); `unknown` / time-outs / `(error` lines
are counted and reported, they never count as agreement."""
import hashlib, os, re, subprocess, tempfile, time

SOLVERS = {
    'cvc5': ['cvc5', '--incremental', '--lang', 'smt2', '--tlimit-per', '8000'],
    'z3-4.8.12': ['/usr/bin/z3', '-smt2', '-t:8000'],
}


def _arg(text, i):
    """end index of the s-expression starting at text[i] (after skipping white space)"""
    while text[i].isspace():
        i += 1
    if text[i] != '(':
        j = i
        while not text[j].isspace() and text[j] not in '()':
            j += 1
        return i, j
    depth, j = 0, i
    while True:
        depth += text[j] == '('
        depth -= text[j] == ')'
        j += 1
        if depth == 0:
            return i, j


def _rewrite_noovfl(text, op, fn):
    """z3's overflow predicates are not SMT-LIB: spell them out with a double-width operation (64-bit operands)"""
    key = '(' + op + ' '
    while True:
        k = text.find(key)
        if k < 0:
            return text
        a0, a1 = _arg(text, k + len(key))
        b0, b1 = _arg(text, a1)
        end = text.index(')', b1) + 1
        a, b = text[a0:a1], text[b0:b1]
        text = text[:k] + '(= ((_ extract 127 64) (%s ((_ zero_extend 64) %s) ((_ zero_extend 64) %s))) (_ bv0 64))' % (fn, a, b) + text[end:]


def portable(text):
    # z3 5.x prints the SMT-LIB 2.7 names; cvc5 1.0 and z3 4.8 know the older ones
    text = text.replace('ubv_to_int', 'bv2nat').replace('(_ int_to_bv ', '(_ int2bv ')
    text = _rewrite_noovfl(text, 'bvumul_noovfl', 'bvmul')
    text = _rewrite_noovfl(text, 'bvuadd_noovfl', 'bvadd')
    return '\n'.join(l for l in text.splitlines() if not l.startswith(('; benchmark', '(set-info')))


def select(queries, cap):
    """deduplicate, then an evenly spaced subset of at most `cap` queries"""
    seen, uniq = set(), []
    for q in queries:
        h = hashlib.sha1(q.encode()).hexdigest()
        if h not in seen:
            seen.add(h)
            uniq.append(q)
    if cap and len(uniq) > cap:
        step = len(uniq) / float(cap)
        uniq = [uniq[int(i * step)] for i in range(cap)]
    return uniq


def run(queries, cap=0, expect='unsat', workdir=None):
    qs = select(queries, cap)
    out = {'exported': len(queries), 'distinct_checked': len(qs), 'expected': expect, 'solvers': {}, 'disagreements': []}
    if not qs:
        return out
    body = ['(set-logic ALL)']
    for i, q in enumerate(qs):
        body += ['(echo "Q%d")' % i, '(push 1)', portable(q), '(pop 1)']
    fd, path = tempfile.mkstemp(suffix='.smt2', dir=workdir)
    os.write(fd, '\n'.join(body).encode())
    os.close(fd)
    try:
        for name, cmd in SOLVERS.items():
            t0 = time.time()
            try:
                p = subprocess.run(cmd + [path], stdout=subprocess.PIPE, stderr=subprocess.STDOUT, text=True, timeout=60 + 9 * len(qs))
                txt = p.stdout
            except subprocess.TimeoutExpired as e:
                txt = (e.stdout or b'').decode() if isinstance(e.stdout, bytes) else (e.stdout or '')
            except FileNotFoundError:
                out['solvers'][name] = {'available': False}
                continue
            counts = {'unsat': 0, 'sat': 0, 'unknown': 0, 'error': 0, 'no_answer': 0}
            cur, answers = None, {}
            for line in txt.splitlines():
                line = line.strip().strip('"')
                m = re.match(r'^Q(\d+)$', line)
                if m:
                    cur = int(m.group(1))
                    continue
                if cur is None:
                    continue
                if line in ('sat', 'unsat', 'unknown'):
                    answers.setdefault(cur, line)
                elif line.startswith('(error'):
                    answers[cur] = 'error'
            for i in range(len(qs)):
                a = answers.get(i, 'no_answer')
                counts[a] += 1
                if a not in (expect, 'unknown', 'error', 'no_answer'):
                    out['disagreements'].append({'solver': name, 'query_index': i, 'answer': a, 'query_head': qs[i][:400]})
            counts['wall_s'] = round(time.time() - t0, 2)
            counts['available'] = True
            out['solvers'][name] = counts
    finally:
        os.unlink(path)
    return out
