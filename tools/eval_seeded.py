#!/usr/bin/env python3
"""eval_seeded.py [ids...] - apply each seeded patch to /repo, run the property's quick check, undo, record the outcome."""
import json, os, subprocess, sys, time, glob
VERIF = os.path.dirname(os.path.dirname(os.path.abspath(__file__)))
ids = sys.argv[1:] or sorted(os.path.basename(d) for d in glob.glob(os.path.join(VERIF, 'seeded', 'C*')))
tier = os.environ.get('EVAL_TIER', 'quick')
REPO = os.environ.get('EVAL_REPO', '/repo')      # a scratch clone lets two evaluations run side by side
for i in ids:
    d = os.path.join(VERIF, 'seeded', i)
    prop = i.split('-')[0]
    props = [prop] + [p for p in os.environ.get('EVAL_ALSO', '').split(',') if p]
    st = subprocess.run(['git', '-C', REPO, 'status', '--porcelain', '--untracked-files=no'], stdout=subprocess.PIPE, text=True).stdout.strip()
    assert not st, REPO + ' is dirty: ' + st
    r = subprocess.run(['git', '-C', REPO, 'apply', os.path.join(d, 'patch.diff')])
    assert r.returncode == 0, 'patch does not apply: ' + i
    res = {}
    try:
        for p in props:
            t0 = time.time()
            pr = subprocess.run([os.path.join(VERIF, 'check'), p, '--tier', tier] + (['--only', os.environ['EVAL_ONLY']] if os.environ.get('EVAL_ONLY') else []), cwd=VERIF, stdout=subprocess.PIPE, stderr=subprocess.STDOUT, text=True,
                                env=dict(os.environ, VERIF_REPO=REPO, VERIF_EVIDENCE_DIR=os.environ.get('VERIF_EVIDENCE_DIR', '/tmp/verif-evidence-scratch'), VERIF_CACHE=os.environ.get('VERIF_CACHE', '/tmp/verif-cache')))
            lines = pr.stdout.splitlines()
            viol = [l for l in lines if l.startswith('VIOLATION')]
            units = [l.strip() for l in lines if l.strip().startswith('unit:')]
            res[p] = {'exit': pr.returncode, 'violation_lines': viol[:5], 'units': units[:8], 'summary': lines[-1] if lines else '', 'wall_s': round(time.time() - t0, 1),
                      'inconclusive': [l[:300] for l in lines if l.startswith('INCONCLUSIVE')][:4]}
    finally:
        subprocess.run(['git', '-C', REPO, 'checkout', '--', '.'])
    out = {'seed': i, 'tier': tier, 'results': res, 'detected': any(v['exit'] == 1 and v['violation_lines'] for v in res.values())}
    json.dump(out, open(os.path.join(d, 'result-%s%s.json' % (tier, ('-' + os.environ['EVAL_ONLY'].replace(',', '')) if os.environ.get('EVAL_ONLY') else '')), 'w'), indent=1)
    print(i, 'DETECTED' if out['detected'] else 'MISSED', {p: (v['exit'], v['wall_s']) for p, v in res.items()}, flush=True)
