#!/usr/bin/env python3
"""eval_benign.py id:PROP,PROP... - apply a behaviour-preserving refactoring (benign/<id>/patch.diff) to a scratch clone, run the quick checks
of the properties it touches; every check must stay silent (exit 0, no VIOLATION). Records benign/<id>/result.json."""
import json, os, subprocess, sys, time
VERIF = os.path.dirname(os.path.dirname(os.path.abspath(__file__)))
REPO = os.environ.get('EVAL_REPO', '/repo')
for spec in sys.argv[1:]:
    i, props = spec.split(':')
    d = os.path.join(VERIF, 'benign', i)
    st = subprocess.run(['git', '-C', REPO, 'status', '--porcelain', '--untracked-files=no'], stdout=subprocess.PIPE, text=True).stdout.strip()
    assert not st, REPO + ' is dirty: ' + st
    r = subprocess.run(['git', '-C', REPO, 'apply', os.path.join(d, 'patch.diff')])
    assert r.returncode == 0, 'patch does not apply: ' + i
    res = {}
    try:
        for p in props.split(','):
            t0 = time.time()
            pr = subprocess.run([os.path.join(VERIF, 'check'), p, '--tier', 'quick'], cwd=VERIF, stdout=subprocess.PIPE, stderr=subprocess.STDOUT, text=True,
                                env=dict(os.environ, VERIF_REPO=REPO, VERIF_EVIDENCE_DIR=os.environ.get('VERIF_EVIDENCE_DIR', '/tmp/verif-evidence-scratch'),
                                         VERIF_CACHE=os.environ.get('VERIF_CACHE', '/tmp/verif-cache')))
            lines = pr.stdout.splitlines()
            res[p] = {'exit': pr.returncode, 'violation_lines': [l for l in lines if l.startswith('VIOLATION')][:5], 'summary': lines[-1] if lines else '',
                      'inconclusive': [l[:400] for l in lines if l.startswith('INCONCLUSIVE')][:6], 'wall_s': round(time.time() - t0, 1)}
    finally:
        subprocess.run(['git', '-C', REPO, 'checkout', '--', '.'])
    out = {'refactoring': i, 'results': res, 'silent': all(v['exit'] == 0 for v in res.values())}
    json.dump(out, open(os.path.join(d, 'result.json'), 'w'), indent=1)
    print(i, 'SILENT' if out['silent'] else 'ALARM/INCONCLUSIVE', {p: v['exit'] for p, v in res.items()}, flush=True)
