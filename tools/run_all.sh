#!/bin/bash
# run every registered quick check sequentially; print one line per property
cd /verif
TIER=${1:-quick}
for p in $(python3 -c "
import json
for c in json.load(open('MANIFEST.json'))['checks']: print(c['property_id'])"); do
  s=$(date +%s)
  out=$(VERIF_CACHE=${VERIF_CACHE:-/tmp/verif-cache} ./check $p --tier $TIER 2>&1 | tail -1)
  echo "$p rc=$? $(( $(date +%s) - s ))s :: $out"
done
