#!/usr/bin/env python3
"""Rewrite the seeded-mutant table in DESIGN.md (between the SEEDED-TABLE markers) from seeded/*/meta.json and result-*.json."""
import json, os, glob, re
VERIF = os.path.dirname(os.path.dirname(os.path.abspath(__file__)))
rows = []
for d in sorted(glob.glob(os.path.join(VERIF, 'seeded', 'C*')), key=lambda x: (x.split('/')[-1].split('-')[0], x)):
    sid = os.path.basename(d)
    meta = json.load(open(os.path.join(d, 'meta.json')))
    am = meta.get('agent_meta', {})
    what = (am.get('what_it_breaks') or meta.get('breaks') or '').replace('\n', ' ').replace('|', '/')
    needs = (am.get('needs_to_manifest') or '').replace('\n', ' ').replace('|', '/')
    res = None
    for t in ('quick', 'thorough'):
        p = os.path.join(d, 'result-%s.json' % t)
        if os.path.exists(p):
            res = json.load(open(p))
            break
    if res is None:
        rows.append('| %s | %s | %s | not run yet | |' % (sid, what[:220], needs[:160]))
        continue
    cells = []
    for prop, r in res['results'].items():
        units = sorted({re.sub(r'^unit: ', '', u).split('::q::')[-1] if 'K:' in u else re.sub(r'^unit: ', '', u) for u in r['units']})
        verdict = {0: 'silent', 1: 'VIOLATION', 2: 'inconclusive'}[r['exit']]
        cells.append('%s %s (%ss)%s' % (prop, verdict, int(r['wall_s']), (': ' + ', '.join(units[:4])) if units else ''))
    rows.append('| %s | %s | %s | %s | %s |' % (sid, what[:220], needs[:160], 'caught' if res['detected'] else '**missed**', '; '.join(cells)[:400]))
tab = ['| seed | what it breaks | needs to manifest | outcome | check result (units that flagged it) |', '|---|---|---|---|---|'] + rows
p = os.path.join(VERIF, 'DESIGN.md')
s = open(p).read()
a, b = '<!-- SEEDED-TABLE-BEGIN -->', '<!-- SEEDED-TABLE-END -->'
if a in s:
    s = s[:s.index(a) + len(a)] + '\n' + '\n'.join(tab) + '\n' + s[s.index(b):]
    open(p, 'w').write(s)
print('\n'.join(tab[:6]))
print('rows:', len(rows), 'caught:', sum('| caught |' in r for r in rows), 'missed:', sum('**missed**' in r for r in rows))
