#!/usr/bin/env python3
"""Generate the parts of the Kani harness crate that are pure lattices of invocations:
   engines/kani/src/gen_c20.rs (arr!/box_arr! invocations by arity) and gen_c01.rs (type-level size/alignment checks).
   Deterministic; the generated files are committed."""
import os
HERE = os.path.dirname(os.path.dirname(os.path.abspath(__file__)))
OUT = os.path.join(HERE, 'engines', 'kani', 'src')

# ------------------------------------------------------------------ C20
QUICK_AR = [0, 1, 2, 3, 4, 5, 6, 7, 8, 12, 16, 31, 32, 33, 64]
THOR_AR = [k for k in list(range(0, 65)) + [100, 128, 255, 256] if k not in QUICK_AR]

def arr_harness(k):
    elems = ', '.join('{ log(%d); s.wrapping_add(%d) }' % (i, i) for i in range(k))
    telems = ', '.join('{ log(%d); Tr::new(%d) }' % (i, i) for i in range(min(k, 40)))
    out = []
    out.append('''    harness! { unwind 4, fn list_%(k)d() {
        let s = any_u32();
        // the annotation pins the length the literal denotes: a wrong arity -> length mapping is a build error
        let a: GenericArray<u32, U%(k)d> = arr![%(elems)s];
        assert!(logn() == %(k)d, "an element expression was not evaluated exactly once");
        if %(k)d > 0 {
            let i = any_upto(%(k)d - (%(k)d > 0) as usize);
            assert!(logat(i) as usize == i, "element expressions not evaluated left to right");
            assert!(a[i] == s.wrapping_add(i as u32), "element %(k)d-list: value at the wrong position");
        }
        unsafe { LOGN = 0; }
        let b: Box<GenericArray<u32, U%(k)d>> = box_arr![%(elems)s];
        assert!(logn() == %(k)d, "box_arr!: an element expression was not evaluated exactly once");
        if %(k)d > 0 {
            let i = any_upto(%(k)d - (%(k)d > 0) as usize);
            assert!(logat(i) as usize == i, "box_arr!: element expressions not evaluated left to right");
            assert!(b[i] == s.wrapping_add(i as u32) && b[i] == a[i], "box_arr! differs from arr!");
        }
        kani_cover!(logn() == %(k)d);
    }}
''' % {'k': k, 'elems': elems})
    if k <= 40:
        out.append('''    harness! { unwind 4, fn tracked_%(k)d() {
        // non-Copy, drop-tracked elements: evaluated once, in order, dropped once
        let a: GenericArray<Tr, U%(k)d> = arr![%(telems)s];
        assert!(logn() == %(k)d);
        if %(k)d > 0 {
            let i = any_upto(%(k)d - (%(k)d > 0) as usize);
            assert!(logat(i) as usize == i && a[i].observe() as usize == i);
        }
        drop(a);
        if %(k)d > 0 { let i = any_upto(%(k)d - (%(k)d > 0) as usize); assert!(drops(i) == 1); }
        kani_cover!(true);
    }}
''' % {'k': k, 'telems': telems})
    return ''.join(out)

def repeat_harness(n, with_box):
    return '''    harness! { unwind %(u)d, fn repeat_%(n)d() {
        let x = any_u32();
        let a: GenericArray<u32, U%(n)d> = arr![x; U%(n)d];
        let b: GenericArray<u32, U%(n)d> = arr![x; %(n)d];
        const C1: GenericArray<u32, U%(n)d> = arr![0x5eed; U%(n)d];
        const C2: GenericArray<u32, U%(n)d> = arr![0x5eed; %(n)d];
        assert!(a.len() == %(n)d && b.len() == %(n)d);
        if %(n)d > 0 {
            let i = any_upto(%(n)d - (%(n)d > 0) as usize);
            assert!(a[i] == x && b[i] == x, "repeat form is not N copies of x");
            assert!(C1[i] == 0x5eed && C2[i] == 0x5eed, "const repeat form differs from the run-time value");
        }
%(box)s        // the repeated expression is evaluated exactly once, whatever the length
        unsafe { LOGN = 0; }
        let e1: GenericArray<u32, U%(n)d> = arr![{ log(7); x }; U%(n)d];
        assert!(logn() == 1, "arr![x; N]: the element expression must be evaluated exactly once");
        let e2: GenericArray<u32, U%(n)d> = arr![{ log(8); x }; %(n)d];
        assert!(logn() == 2, "arr![x; n]: the element expression must be evaluated exactly once");
        kani_cover!(true);
    }}
''' % {'n': n, 'u': n + 4, 'box': ('''%(boxfx)s        let c: Box<GenericArray<u32, U%(n)d>> = box_arr![x; U%(n)d];
        let d: Box<GenericArray<u32, U%(n)d>> = box_arr![x; %(n)d];
        if %(n)d > 0 { let i = any_upto(%(n)d - (%(n)d > 0) as usize); assert!(c[i] == x && d[i] == x, "box_arr! repeat form differs"); }
''' % {'n': n, 'boxfx': ('''        unsafe { LOGN = 0; }
        let f1: Box<GenericArray<u32, U%(n)d>> = box_arr![{ log(9); x }; U%(n)d];
        let f2: Box<GenericArray<u32, U%(n)d>> = box_arr![{ log(10); x }; %(n)d];
        assert!(logn() == 2, "box_arr![x; N]: the element expression must be evaluated exactly once per invocation");
        { let i = any_upto(%(n)d - 1); assert!(f1[i] == x && f2[i] == x); }
''' % {'n': n}) if n > 0 else '''        // N = 0: Kani 0.68 mis-models `vec![x; 0]` after a write to a static (capacity != 0, path-dependent): the evaluation count is kept in a local
        let mut evals = 0u32;
        let z1: Box<GenericArray<u32, U0>> = box_arr![{ evals += 1; x }; U0];
        let z2: Box<GenericArray<u32, U0>> = box_arr![{ evals += 1; x }; 0];
        assert!(evals == 2 && z1.len() == 0 && z2.len() == 0, "box_arr![x; 0]: the element expression must be evaluated exactly once per invocation (as `[x; 0]` and `arr!` do)");
'''}) if with_box else ''}

c20 = ['//! GENERATED by tools/gen_harnesses.py - do not edit.\n//! C20: arr! / box_arr! build the array their literal syntax denotes.\n#![allow(unused_braces)]\n']
c20.append('''
/// trailing commas, empty list, const contexts
pub mod syntax {
    use crate::common::*;
    harness! { unwind 4, fn trailing_and_empty() {
        let x = any_u32();
        let a: GenericArray<u32, U3> = arr![x, 2, 3,];
        let b: GenericArray<u32, U3> = arr![x, 2, 3];
        assert!(a[0] == b[0] && a[1] == 2 && a[2] == 3);
        let e: GenericArray<u32, U0> = arr![];
        let e2: GenericArray<u32, U0> = arr![,];
        assert!(e.len() == 0 && e2.len() == 0);
        const C: GenericArray<u8, U4> = arr![9, 8, 7, 6];
        let i = any_upto(3);
        assert!(C[i] == 9 - i as u8, "const arr! differs from the literal");
        let bx: Box<GenericArray<u32, U3>> = box_arr![x, 2, 3,];
        assert!(bx[0] == x && bx[2] == 3);
        let be: Box<GenericArray<u32, U0>> = box_arr![];
        assert!(be.len() == 0);
        kani_cover!(true);
    }}
    /// the operand is evaluated in the CALLER's scope: items the macro defines for itself must not capture the caller's names
    /// (`macro_rules!` hygiene does not cover items, so a helper `const LEN` inside the expansion would shadow a caller's `LEN`)
    harness! { unwind 6, fn operand_sees_the_callers_items() {
        const LEN: usize = 7;
        const N: usize = 9;
        const LENGTH: usize = 11;
        const SIZE: usize = 13;
        const COUNT: usize = 17;
        fn len() -> usize { 19 }
        let a: GenericArray<usize, U4> = arr![LEN; U4];
        let b: GenericArray<usize, U4> = arr![N + LENGTH; 4];
        let c: GenericArray<usize, U3> = arr![SIZE, COUNT, len()];
        let d: GenericArray<usize, U2> = arr![SIZE * COUNT; U2];
        let i = any_upto(3);
        assert!(a[i] == 7 && b[i] == 20, "arr![x; N]: the operand did not see the caller's constants");
        assert!(c[0] == 13 && c[1] == 17 && c[2] == 19 && d[1] == 221);
        let e: Box<GenericArray<usize, U4>> = box_arr![LEN; U4];
        let f: Box<GenericArray<usize, U4>> = box_arr![N + LENGTH; 4];
        let g: Box<GenericArray<usize, U3>> = box_arr![SIZE, COUNT, len()];
        assert!(e[i] == 7 && f[i] == 20 && g[2] == 19, "box_arr!: the operand did not see the caller's items");
        const K: GenericArray<usize, U4> = arr![LEN + N; U4];
        assert!(K[i] == 16);
        kani_cover!(true);
    }}
    /// the repeat forms accept what the native `[x; N]` accepts: a non-`Copy` operand given as a path to a `const` item, and a length
    /// that mentions a const generic parameter or `Self` of the enclosing item (`{ K }`, `{ Self::WORDS }`), at run time and in const items
    pub struct Holder<const K: usize>;
    impl<const K: usize> Holder<K>
    where
        generic_array::typenum::Const<K>: generic_array::IntoArrayLength,
    {
        pub const Z: GenericArray<u8, generic_array::ConstArrayLength<K>> = arr![7u8; { K }];
    }
    pub struct Fixed;
    impl Fixed {
        pub const WORDS: usize = 3;
        pub fn fill(x: u32) -> GenericArray<u32, U3> { arr![x; { Self::WORDS }] }
    }
    pub const fn splat<const K: usize>(x: u8) -> GenericArray<u8, generic_array::ConstArrayLength<K>>
    where
        generic_array::typenum::Const<K>: generic_array::IntoArrayLength,
    {
        arr![x; { K }]
    }
    pub struct NoCopy(pub u8);
    harness! { unwind 6, fn repeat_forms_accept_what_native_repeat_accepts() {
        const NC: NoCopy = NoCopy(5);
        const EMPTY: Vec<u8> = Vec::new();
        let a: GenericArray<NoCopy, U3> = arr![NC; U3];
        let v: GenericArray<Vec<u8>, U2> = arr![EMPTY; U2];
        const CA: GenericArray<NoCopy, U4> = arr![NC; U4];
        let i = any_upto(2);
        assert!(a[i].0 == 5 && CA[i + 1].0 == 5 && v[i & 1].is_empty(), "arr![CONST; N] with a non-Copy constant operand");
        let x = any_u32();
        let f = Fixed::fill(x);
        assert!(f.len() == 3 && f[i] == x, "arr![x; {{ Self::WORDS }}]");
        assert!(Holder::<4>::Z.len() == 4 && Holder::<4>::Z[i + 1] == 7, "arr![x; {{ K }}] in an associated const");
        const S: GenericArray<u8, U3> = splat::<3>(9);
        assert!(S[i] == 9 && splat::<5>(x as u8)[i + 2] == x as u8, "arr![x; {{ K }}] in a const fn");
        kani_cover!(true);
    }}
    /// the type-level repeat form takes ANY typenum length, also one that typenum does not name and that has no `Const<N>` counterpart
    /// (a sum / product of named lengths); only the length and two slots are looked at (1025 / 1600 elements are not walked)
    harness! { unwind 4, fn type_level_lengths_typenum_does_not_name() {
        use core::ops::{Add, Mul};
        type L1025 = <U1024 as Add<U1>>::Output;
        type L1600 = <U40 as Mul<U40>>::Output;
        const A: GenericArray<u8, L1025> = arr![0xa5; L1025];
        static B: GenericArray<u16, L1600> = arr![0x5eed; L1600];
        assert!(A.len() == 1025 && A[0] == 0xa5 && A[1024] == 0xa5);
        assert!(B.len() == 1600 && B[0] == 0x5eed && B[1599] == 0x5eed);
        let x = any_u8();
        let c: GenericArray<u8, <U7 as Add<U6>>::Output> = arr![x; <U7 as Add<U6>>::Output];
        assert!(c.len() == 13 && c[12] == x);
        kani_cover!(true);
    }}
}
''')
c20.append('pub mod q {\n    use crate::common::*;\n')
for k in QUICK_AR: c20.append(arr_harness(k))
for n in [0, 1, 3, 8]: c20.append(repeat_harness(n, True))
c20.append('}\npub mod t {\n    use crate::common::*;\n')
for k in THOR_AR: c20.append(arr_harness(k))
for n in [2, 5, 16, 33, 64]: c20.append(repeat_harness(n, n <= 16))
c20.append('}\n')
open(os.path.join(OUT, 'gen_c20.rs'), 'w').write(''.join(c20))

# ------------------------------------------------------------------ C01 type-level size checks
BIG = [2047, 2048, 3600, 4095, 4096, 8191, 8192, 10000, 16383, 16384, 32767, 32768, 65535, 65536, 100000]
p = 17
while p <= 63:
    BIG += [2**p - 1, 2**p]
    p += 1
k = 6
while 10**k < 2**64:
    BIG.append(10**k); k += 1
BIG = sorted(set(BIG))

def size_block(name, ty, size, ns, chunk=128):
    out = []
    for c in range(0, len(ns), chunk):
        part = ns[c:c + chunk]
        body = ''.join('        sz::<%s, U%d>(%d);\n' % (ty, n, n) for n in part)
        out.append('    harness! { unwind 2, fn %s_%d() {\n%s        kani_cover!(true);\n    }}\n' % (name, c // chunk, body))
    return ''.join(out)

c01 = ['''//! GENERATED by tools/gen_harnesses.py - do not edit.
//! C01: type-level size/alignment equalities `size_of::<GenericArray<T,N>>() == N * size_of::<T>()`.
//! These are evaluated by rustc's layout engine and merely routed through a harness: they validate
//! the layout model of engine L against the compiler, they are not the deciding step.
use crate::common::*;
fn sz<T, N: ArrayLength>(n: usize) {
    assert!(N::USIZE == n);
    assert!(core::mem::size_of::<GenericArray<T, N>>() == n * core::mem::size_of::<T>(), "size differs from [T; N]");
    assert!(core::mem::align_of::<GenericArray<T, N>>() == core::mem::align_of::<T>(), "alignment differs from [T; N]");
}
''']
c01.append('pub mod q {\n    use super::sz;\n    use crate::common::*;\n')
quick_ns = list(range(0, 65)) + [127, 128, 255, 256, 511, 512, 1000, 1023, 1024]
c01.append(size_block('u8_small', 'u8', 1, quick_ns))
c01.append(size_block('pad_small', '(u8, u16)', 4, quick_ns))
c01.append(size_block('a16_small', 'A16', 16, list(range(0, 34))))
c01.append(size_block('z8_small', 'Z8', 0, list(range(0, 34))))
c01.append(size_block('u8_big', 'u8', 1, [n for n in BIG if n <= 2**60]))
c01.append(size_block('z8_big', 'Z8', 0, BIG))
c01.append('}\npub mod t {\n    use super::sz;\n    use crate::common::*;\n')
c01.append(size_block('u8_all', 'u8', 1, list(range(0, 1025))))
c01.append(size_block('pad_all', '(u8, u16)', 4, list(range(0, 1025))))
c01.append(size_block('a16_all', 'A16', 16, list(range(0, 1025))))
c01.append(size_block('w24_all', '[u64; 3]', 24, list(range(0, 257))))
c01.append(size_block('pad_big', '(u8, u16)', 4, [n for n in BIG if n <= 2**58]))
c01.append(size_block('unit_big', '()', 0, BIG))
c01.append('}\n')
open(os.path.join(OUT, 'gen_c01.rs'), 'w').write(''.join(c01))
print('generated gen_c20.rs, gen_c01.rs')
