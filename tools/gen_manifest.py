#!/usr/bin/env python3
"""Regenerate /verif/MANIFEST.json from lib/registry.py (single source of truth)."""
import json, os, sys
HERE = os.path.dirname(os.path.dirname(os.path.abspath(__file__)))
sys.path.insert(0, os.path.join(HERE, 'lib'))
import registry

props = [json.loads(l) for l in open(os.path.join(HERE, 'properties.jsonl'))]
checks, na = [], []
for p in props:
    pid = p['id']
    spec = registry.PROPS.get(pid)
    if not spec:
        na.append({'property_id': pid, 'reason': registry.NOT_APPLICABLE.get(pid, 'no solver-based check has been built for this property yet')})
        continue
    engines = [e for e, k in (('K', 'kani'), ('M', 'mir'), ('L', 'layout')) if spec.get(k)]
    checks.append({
        'property_id': pid,
        'quick_cmd': './check %s --tier quick' % pid,
        'thorough_cmd': './check %s --tier thorough' % pid,
        'evidence_file': 'evidence/%s.json' % pid,
        'replay_cmd_template': './check %s --replay {path}' % pid,
        'engine': '+'.join(engines),
        'level_claimed': {
            'category': 'model_checking',
            'text': spec.get('level_text', 'Bounded symbolic checking of the real code: the solver decides every assertion for all values of the symbolic inputs within the stated bounds (' + spec.get('bounds', '') + '). Nothing is claimed outside the bounds.'),
            'design_ref': 'DESIGN.md section 3, ' + pid,
        },
        'level_note': spec.get('level_note', 'Trusted: rustc MIR construction; Kani 0.68 MIR->GOTO translation and CBMC 6.11/cadical; for M the summaries of core/alloc functions listed in the evidence and z3; assumptions listed in the evidence file.'),
        'technique': spec.get('technique', 'bounded model checking of the compiled crate with Kani/CBMC (SAT) over symbolic inputs'),
    })
man = {
    'version': 1,
    'setup_cmd': 'true',
    'hooks': {
        'guard': 'fizyk20_generic_array_verif',
        'enable': 'none needed: no source hooks exist; checks use the public API plus the crate\'s own `internals` feature and read compiler output (MIR)',
        'baseline_off_cmd': 'cd /repo && cargo test --workspace --no-fail-fast --offline',
        'source_commits': [],
        'add_only': True,
    },
    'engines': [
        {'name': 'K', 'path': 'engines/kani', 'serves_properties': [c['property_id'] for c in checks if 'K' in c['engine']],
         'kind_free_text': 'Kani 0.68 / CBMC 6.11 proof harnesses in an out-of-tree crate with a path dependency on /repo; native replay binary + Miri for counterexamples'},
        {'name': 'M', 'path': 'engines/mirsym', 'serves_properties': [c['property_id'] for c in checks if 'M' in c['engine']],
         'kind_free_text': 'own symbolic executor over rustc MIR of /repo (regenerated per run) with unwind edges and an ownership ledger; z3 decides each obligation'},
        {'name': 'L', 'path': 'engines/layout', 'serves_properties': [c['property_id'] for c in checks if 'L' in c['engine']],
         'kind_free_text': 'SMT encoding of repr(C)/repr(transparent) layout rules over the storage-node definitions parsed from /repo'},
    ],
    'checks': checks,
    'not_applicable': na,
    'notes': 'All checks: ./check <ID> --tier quick|thorough. Exit 0 holds / 1 VIOLATION (replayed natively) / 2 inconclusive. See DESIGN.md.',
}
json.dump(man, open(os.path.join(HERE, 'MANIFEST.json'), 'w'), indent=1)
print('MANIFEST.json: %d checks, %d not_applicable' % (len(checks), len(na)))
