#!/usr/bin/env python3
"""seed_intake.py <PROP> <deliver-dir>  - verify sub-agent mutants independently in a scratch worktree and keep the
confirmed ones under /verif/seeded/<PROP>-<k>/ (patch.diff, demo.rs, meta.json)."""
import json, os, shutil, subprocess, sys, glob
VERIF = os.path.dirname(os.path.dirname(os.path.abspath(__file__)))
prop, deliver = sys.argv[1], sys.argv[2]
offset = int(sys.argv[3]) if len(sys.argv) > 3 else 0
WT = '/tmp/wt-verify-' + prop
FEAT = 'alloc serde zeroize const-default internals'
env = dict(os.environ, CARGO_NET_OFFLINE='true')

def sh(cmd, cwd=WT, timeout=1800):
    p = subprocess.run(cmd, cwd=cwd, shell=True, executable='/bin/bash', env=env, stdout=subprocess.PIPE, stderr=subprocess.STDOUT, text=True, timeout=timeout)
    return p.returncode, p.stdout

if os.path.exists(WT):
    sh('git -C /repo worktree remove --force ' + WT, cwd='/')
rc, out = sh('git -C /repo worktree add -q --detach %s HEAD' % WT, cwd='/')
assert rc == 0, out
kept = []
try:
    for patch in sorted(glob.glob(os.path.join(deliver, 'patch*.diff'))):
        k = ''.join(c for c in os.path.basename(patch) if c.isdigit()) or '1'
        demos = glob.glob(os.path.join(deliver, 'demo_*_%s.rs' % k))
        meta_in = os.path.join(deliver, 'meta%s.json' % k)
        rec = {'property': prop, 'source': 'independent sub-agent given only the property text and a scratch worktree' + (' (seventh round: same protocol as the sixth, for the properties whose checks changed most in the sixth round)' if offset >= 12 else ' (sixth round: asked for cooperating sites / multi-step sequences / unusual inputs, given the list of everything tried for this property before)' if offset >= 10 else ' (fifth round: the list of tried kinds extended by the fourth round)' if offset >= 8 else ' (fourth round: told every kind of change tried so far and asked for a different kind)' if offset >= 6 else ' (third round: asked for the least-visited places the property depends on)' if offset >= 4 else ' (second round: asked for subtler changes than the obvious slips)' if offset else ''), 'checks_run': []}
        if os.path.exists(meta_in):
            try:
                rec['agent_meta'] = json.load(open(meta_in))
            except Exception as e:
                rec['agent_meta'] = {'unparsed': open(meta_in).read()[:2000]}
        if not demos:
            print(prop, k, 'SKIP: no demo'); continue
        demo = demos[0]
        sh('git checkout -q -- . && git clean -fdq tests')
        rc, out = sh('git apply --check %s && git apply %s' % (patch, patch))
        if rc != 0:
            print(prop, k, 'REJECT: patch does not apply', out[-300:]); continue
        steps = [('build default', 'cargo build --offline'), ('build features', 'cargo build --offline --features "%s"' % FEAT),
                 ('test default', 'cargo test --offline 2>&1 | tail -60'), ('test features', 'cargo test --offline --features "%s" 2>&1 | tail -80' % FEAT)]
        ok = True
        for name, cmd in steps:
            rc, out = sh('set -o pipefail; ' + cmd)
            failed = rc != 0 or 'test result: FAILED' in out or 'error[' in out or 'error: could not compile' in out
            rec['checks_run'].append({'step': name + ' (with patch)', 'cmd': cmd, 'ok': not failed})
            if failed:
                ok = False
                print(prop, k, 'REJECT: %s fails with the patch' % name, out[-400:]); break
        if not ok:
            continue
        demo_name = os.path.basename(demo)
        shutil.copy(demo, os.path.join(WT, 'tests', demo_name))
        tname = demo_name[:-3]
        rc1, out1 = sh('cargo test --offline --features "%s" --test %s 2>&1 | tail -40' % (FEAT, tname))
        fails_with = 'test result: FAILED' in out1 or ('error' in out1 and 'test result: ok' not in out1)
        miri = False
        if not fails_with:
            rc1, out1 = sh('MIRIFLAGS=-Zmiri-disable-isolation cargo +nightly miri test --offline --features "%s" --test %s 2>&1 | tail -40' % (FEAT, tname), timeout=3600)
            fails_with = 'Undefined Behavior' in out1 or 'test result: FAILED' in out1 or 'memory leaked' in out1
            miri = fails_with
        sh('git checkout -q -- src')
        rc2, out2 = sh(('MIRIFLAGS=-Zmiri-disable-isolation cargo +nightly miri test' if miri else 'cargo test') + ' --offline --features "%s" --test %s 2>&1 | tail -40' % (FEAT, tname), timeout=3600)
        passes_without = 'test result: ok' in out2 and 'FAILED' not in out2 and 'Undefined Behavior' not in out2
        rec['checks_run'].append({'step': 'demo with patch (must fail)' + (' [miri]' if miri else ''), 'ok': fails_with, 'tail': out1[-500:]})
        rec['checks_run'].append({'step': 'demo without patch (must pass)', 'ok': passes_without, 'tail': out2[-300:]})
        if not (fails_with and passes_without):
            print(prop, k, 'REJECT: demo does not discriminate (fails_with=%s passes_without=%s)' % (fails_with, passes_without)); continue
        d = os.path.join(VERIF, 'seeded', '%s-%d' % (prop, int(k) + offset))
        os.makedirs(d, exist_ok=True)
        shutil.copy(patch, os.path.join(d, 'patch.diff'))
        shutil.copy(demo, os.path.join(d, demo_name))
        rec['demo'] = demo_name
        rec['demo_needs_miri'] = miri
        rec['breaks'] = rec.get('agent_meta', {}).get('what_it_breaks', '')
        rec['needs_to_manifest'] = rec.get('agent_meta', {}).get('needs_to_manifest', '')
        rec['confirmed'] = 'patch applies to HEAD; both builds and both unedited test suites pass with it; the demonstration fails with it and passes without it (verified in a scratch worktree by tools/seed_intake.py)'
        json.dump(rec, open(os.path.join(d, 'meta.json'), 'w'), indent=1)
        kept.append(d)
        print(prop, k, 'KEPT', d)
finally:
    sh('git -C /repo worktree remove --force ' + WT, cwd='/')
