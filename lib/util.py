"""Shared plumbing: paths, scratch directories, evidence files, known findings."""
import json, os, shutil, subprocess, sys, tempfile, time, atexit

VERIF = os.path.dirname(os.path.dirname(os.path.abspath(__file__)))
REPO = os.environ.get('VERIF_REPO', '/repo')
SCRATCH_ROOT = os.environ.get('VERIF_SCRATCH', '/tmp')
os.makedirs(SCRATCH_ROOT, exist_ok=True)
EVIDENCE_DIR = os.environ.get('VERIF_EVIDENCE_DIR') or os.path.join(VERIF, 'evidence')      # override: evaluations of seeded / scratch trees must not touch the committed evidence
REPLAY_DIR = os.path.join(VERIF, 'replays')
KNOWN_FINDINGS = os.path.join(VERIF, 'known_findings.json')
KANI_TOOLCHAIN = 'nightly-2026-08-21'
NCPU = os.cpu_count() or 4

_scratch_dirs = []


def scratch(prefix):
    """Per-run scratch directory outside /repo and /verif; removed at exit."""
    d = tempfile.mkdtemp(prefix='verif-%s-' % prefix, dir=SCRATCH_ROOT)
    _scratch_dirs.append(d)
    return d


def _cleanup():
    if os.environ.get('VERIF_KEEP'):
        return
    for d in _scratch_dirs:
        shutil.rmtree(d, ignore_errors=True)


atexit.register(_cleanup)


def base_env():
    e = dict(os.environ)
    e['CARGO_NET_OFFLINE'] = 'true'
    e.pop('RUSTFLAGS', None)
    e.pop('RUSTUP_TOOLCHAIN', None)
    return e


def run(cmd, cwd=None, env=None, timeout=None, mem_kb=None, log=None):
    """Run a command, return (rc, output, wall). rc = -9 on timeout."""
    t0 = time.time()
    if mem_kb:
        cmd = ['bash', '-c', 'ulimit -v %d; exec "$@"' % mem_kb, 'x'] + list(cmd)
    try:
        p = subprocess.run(cmd, cwd=cwd, env=env or base_env(), timeout=timeout,
                           stdout=subprocess.PIPE, stderr=subprocess.STDOUT, text=True, errors='replace')
        rc, out = p.returncode, p.stdout
    except subprocess.TimeoutExpired as ex:
        rc, out = -9, (ex.stdout or b'').decode('utf8', 'replace') if isinstance(ex.stdout, bytes) else (ex.stdout or '')
        out += '\n[runner] TIMEOUT after %ss\n' % timeout
    if log:
        with open(log, 'w') as f:
            f.write('$ ' + ' '.join(cmd) + '\n' + out)
    return rc, out, time.time() - t0


def repo_source_digest():
    """Digest of /repo's current working-tree sources (recorded in evidence: what was checked)."""
    import hashlib
    h = hashlib.sha256()
    for root in ('src',):
        for dp, dn, fn in sorted(os.walk(os.path.join(REPO, root))):
            for f in sorted(fn):
                p = os.path.join(dp, f)
                h.update(p.encode())
                h.update(open(p, 'rb').read())
    h.update(open(os.path.join(REPO, 'Cargo.toml'), 'rb').read())
    return h.hexdigest()[:16]


def load_known_findings():
    if not os.path.exists(KNOWN_FINDINGS):
        return []
    return json.load(open(KNOWN_FINDINGS)).get('findings', [])


def write_evidence(prop, tier, seed, level, coverage, assumptions, wall, violations, extra=None):
    os.makedirs(EVIDENCE_DIR, exist_ok=True)
    ev = {
        'property_id': prop, 'tier': tier, 'seed': seed, 'level': level,
        'coverage': coverage, 'assumptions': assumptions, 'wall_s': round(wall, 2), 'violations': violations,
    }
    if extra:
        ev.update(extra)
    p = os.path.join(EVIDENCE_DIR, prop + '.json')
    tmp = p + '.tmp'
    with open(tmp, 'w') as f:
        json.dump(ev, f, indent=1, sort_keys=False)
        f.write('\n')
    os.replace(tmp, p)
    return p


def say(*a):
    print(*a, flush=True)
