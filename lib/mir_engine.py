"""Engine M glue: dump rustc's MIR of /repo's current working tree (scratch copy), run the mirsym scenarios of
a property (python3-vt, z3), turn results into units / violations, and confirm findings natively."""
import json, os, re, shutil
from util import *

MIRSYM = os.path.join(VERIF, 'engines', 'mirsym')
FEATURES = 'alloc internals serde zeroize const-default'

_mir_cache = {}


def dump_mir(overflow_checks='on'):
    """-> (scratch_root, mir_path, error|None). The scratch copy holds src/, Cargo.toml, Cargo.lock of /repo's working tree."""
    key = overflow_checks
    if key in _mir_cache:
        return _mir_cache[key]
    d = scratch('mir')
    root = os.path.join(d, 'repo')
    os.makedirs(root)
    shutil.copytree(os.path.join(REPO, 'src'), os.path.join(root, 'src'))
    for f in ('Cargo.toml', 'Cargo.lock'):
        if os.path.exists(os.path.join(REPO, f)):
            shutil.copy(os.path.join(REPO, f), root)
    cmd = ['cargo', '+nightly', 'rustc', '--offline', '--lib', '--features', FEATURES, '--target-dir', os.path.join(d, 'target'), '--',
           '-Zunpretty=mir', '-C', 'debug-assertions=off', '-C', 'overflow-checks=' + overflow_checks]
    import subprocess
    p = subprocess.run(cmd, cwd=root, env=base_env(), stdout=subprocess.PIPE, stderr=subprocess.PIPE, text=True)
    mir = os.path.join(d, 'mir-%s.txt' % overflow_checks)
    open(mir, 'w').write(p.stdout)
    err = None
    if p.returncode != 0 or not p.stdout.strip():
        err = 'MIR dump failed: ' + p.stderr[-1200:]
    _mir_cache[key] = (root, mir, err)
    return _mir_cache[key]


def kind_class(kind):
    k = kind.lower()
    if 'derived through a shared borrow' in k or 'dangling reference' in k:
        return 'provenance'
    if 'held by value in a stack frame' in k:
        return 'stack'
    if 'already freed' in k:
        return 'use-after-free'
    if 'never freed' in k:
        return 'block-leak'
    if 're-boxed under a layout' in k:
        return 'dealloc-mismatch'
    if 'zero-size allocation' in k:
        return 'zero-size-alloc'
    if 'null block' in k:
        return 'null-deref'
    if 'heap block' in k:
        return 'block-leak'
    if 'dropped while not live' in k or 'double drop' in k or 'read after it was moved' in k or 'not owned' in k:
        return 'double-drop'
    if 'leak' in k or 'lost' in k or 'alive' in k or 'neither' in k:
        return 'leak'
    return 'semantic'


def run(ctx, spec, units, violations, inconcl, meta):
    prop, tier = ctx['prop'], ctx['tier']
    ms = spec['mir'].get(tier) or spec['mir']['quick']
    root, mir, err = dump_mir()
    mmeta = meta['engines'].setdefault('M', {'tool': 'mirsym (own MIR symbolic executor) + z3 %s' % z3_version(), 'mir_cmd': 'cargo +nightly rustc --lib --features "%s" -- -Zunpretty=mir -C debug-assertions=off -C overflow-checks=on' % FEATURES,
                                             'solver_s': 0.0, 'wall_s': 0.0, 'queries': 0, 'paths': 0, 'unwind_paths': 0, 'summaries': [], 'functions': []})
    if err:
        inconcl.append(('M', err))
        return
    if spec['mir'].get('validate') and not ctx.get('filter'):
        validate_translator(root, mir, mmeta, inconcl)
    for group in ms:
        nmax, scen = group['nmax'], group['scenarios']
        if ctx.get('filter'):
            scen = [x for x in scen if ctx['filter'] in x]
        if not scen:
            continue
        cmd = ['python3-vt', os.path.join(MIRSYM, 'run.py'), mir, root, str(nmax)] + scen
        # solver cross-check: every obligation z3 discharged is exported as SMT-LIB 2 and decided again by cvc5 and by z3 4.8.12
        # (quick: an evenly spaced subset of at most 80 distinct queries per scenario; thorough: all of them)
        xenv = dict(base_env(), MIRSYM_XCHECK='1', MIRSYM_XCHECK_CAP='80' if tier == 'quick' else '0')
        if os.environ.get('VERIF_NO_XCHECK'):
            xenv.pop('MIRSYM_XCHECK')
        rc, out, wall = run_cmd(cmd, timeout=group.get('timeout', 1800) + 600, env=xenv)
        mmeta['wall_s'] += wall
        got = {}
        for line in out.splitlines():
            if line.startswith('{'):
                try:
                    d = json.loads(line)
                    got[d['name']] = d
                except Exception:
                    pass
        for sc in scen:
            d = got.get(sc)
            if d is None:
                inconcl.append(('M:' + sc, 'scenario produced no result (rc=%s): %s' % (rc, out[-400:])))
                continue
            mmeta['solver_s'] += d['solver_s']
            mmeta['queries'] += d['queries']
            mmeta['paths'] += d['paths']
            mmeta['unwind_paths'] += d['unwind_paths']
            mmeta['summaries'] = sorted(set(mmeta['summaries']) | set(d['summaries']))
            mmeta['functions'] = sorted(set(mmeta['functions']) | set(d['functions']))
            xc = d.get('xcheck')
            if xc:
                agg = mmeta.setdefault('solver_crosscheck', {'what': 'obligations discharged by z3 (python API) exported as SMT-LIB 2 and decided again; an answer other than unsat/unknown is a disagreement and makes the scenario inconclusive',
                                                             'queries_exported': 0, 'distinct_rechecked': 0, 'disagreements': 0, 'solvers': {}})
                agg['queries_exported'] += xc['exported']
                agg['distinct_rechecked'] += xc['distinct_checked']
                agg['disagreements'] += len(xc['disagreements'])
                for sv, c in xc['solvers'].items():
                    a = agg['solvers'].setdefault(sv, {'unsat': 0, 'sat': 0, 'unknown': 0, 'error': 0, 'no_answer': 0, 'wall_s': 0.0})
                    for k in a:
                        a[k] = round(a[k] + c.get(k, 0), 2)
            u = {'engine': 'M', 'name': 'M:' + sc, 'verdict': d['verdict'], 'obligations': d['obligations'], 'discharged': d['discharged'],
                 'bounds': d['bounds'],
                 'sample': {'scenario': sc, 'verdict': d['verdict'], 'bounds': d['bounds'], 'paths': d['paths'], 'unwind_paths': d['unwind_paths'],
                            'smt_queries': d['queries'], 'solver_s': d['solver_s'], 'obligations_discharged': d['samples'][:5],
                            'rechecked_by_other_solvers': {sv: {k: c.get(k) for k in ('unsat', 'sat', 'unknown', 'error')} for sv, c in (d.get('xcheck') or {}).get('solvers', {}).items()},
                            'functions_interpreted': d['functions'][:8]}}
            units.append(u)
            if group.get('advisory'):
                # structural (delegation) obligations: an impl that is no longer a plain delegation is "not discharged", not a verdict -
                # the bounded K harnesses with their independent model decide the property
                if d['verdict'] != 'pass':
                    u['verdict'] = 'not-discharged'
                    u['sample']['not_discharged'] = d['reason'] or '; '.join(f['kind'] for f in d['findings'])[:300]
                    mmeta.setdefault('not_discharged', []).append({'scenario': sc, 'why': u['sample']['not_discharged']})
                continue
            if d['verdict'] == 'inconclusive':
                if group.get('soft_inconclusive'):
                    # the all-N lifting by an invariant template is an *extra* over the bounded scenario of the same name: if the template
                    # does not fit (e.g. the loop was restructured) it is reported as not discharged; the bounded scenario still decides
                    u['verdict'] = 'not-discharged'
                    u['sample']['not_discharged'] = d['reason']
                    mmeta.setdefault('not_discharged', []).append({'scenario': sc, 'why': d['reason']})
                else:
                    inconcl.append(('M:' + sc, d['reason']))
            for f in d['findings']:
                v = make_violation(prop, sc.replace('@ind', ''), f)
                v['inductive'] = sc.endswith('@ind')
                violations.append(v)


def validate_translator(root, mir, mmeta, inconcl):
    """Translator validation: on a grid of concrete iterator states the executor's predictions (returned element, new indices, elements
    dropped) must equal what the compiled crate does (native `mreplay validate.iter`)."""
    from util import run as urun
    rc, out, wall = urun(['python3-vt', os.path.join(MIRSYM, 'run.py'), mir, root, '3', 'validate.iter'], cwd=MIRSYM, timeout=900)
    try:
        preds = json.loads([l for l in out.splitlines() if l.startswith('{')][-1])['predictions']
    except Exception:
        inconcl.append(('M:validate.iter', 'no predictions: ' + out[-300:]))
        return
    exe, err = build_mreplay()
    if err:
        inconcl.append(('M:validate.iter', err))
        return
    rc, out, wall = urun([exe, 'validate.iter', '-'], timeout=600)
    native = {}
    for l in out.splitlines():
        m = re.match(r'V n=(\d+) front=(\d+) back=(\d+) op=(\w+) arg=(\d+) ret=(\w+) len=(\d+) index=(\S+) index_back=(\S+) dropped=\[(.*)\]', l)
        if m:
            native[(int(m.group(1)), int(m.group(2)), int(m.group(3)), m.group(4), int(m.group(5)))] = {
                'ret': None if m.group(6) == 'None' else int(m.group(6)), 'len': int(m.group(7)),
                'index': None if m.group(8) == '-' else int(m.group(8)), 'dropped': [int(x) for x in m.group(10).split(',') if x.strip()]}
    compared, bad = 0, []
    for p in preds:
        k = (p['n'], p['front'], p['back'], p['op'], p['arg'])
        nv = native.get(k)
        if nv is None:
            continue
        compared += 1
        ok = p['ret'] == nv['ret'] and p['index_back'] - p['index'] == nv['len'] and sorted(p['dropped']) == sorted(nv['dropped']) and (nv['index'] is None or nv['index'] == p['index'])
        if not ok:
            bad.append({'case': k, 'predicted': p, 'native': nv})
    mmeta['traces_validated_against_impl'] = compared
    mmeta['translator_disagreements'] = bad[:5]
    if bad or compared < 100:
        inconcl.append(('M:validate.iter', 'the executor disagrees with the compiled crate on %d of %d concrete cases (or too few compared): %s' % (len(bad), compared, json.dumps(bad[:2])[:400])))


def z3_version():
    return '5.1 (python3-vt)'


def run_cmd(cmd, timeout, env=None):
    from util import run as urun
    return urun(cmd, cwd=MIRSYM, timeout=timeout, env=env)


def make_violation(prop, sc, f):
    kc = kind_class(f['kind'])
    path = os.path.join(REPLAY_DIR, prop, 'M_%s_%s.json' % (re.sub(r'[^A-Za-z0-9]+', '_', sc), re.sub(r'[^A-Za-z0-9]+', '_', f['kind'])[:60]))
    rec = {'engine': 'mirsym', 'property': prop, 'scenario': sc, 'kind': f['kind'], 'class': kc, 'where': f['where'], 'model': f['model'], 'trace': f['trace'],
           'how_to_replay': './check %s --replay %s' % (prop, path)}

    def do():
        os.makedirs(os.path.dirname(path), exist_ok=True)
        json.dump(rec, open(path, 'w'), indent=1)
        return replay_file(prop, rec)
    what = '%s [%s at %s; model %s; trace: %s]' % (f['kind'], sc, f['where'], json.dumps(f['model'])[:200], f['trace'][:300])
    return {'unit': 'M:' + sc, 'what': what, 'path': path, 'replay': do, 'engine': 'M', 'role': sc + '/' + kc}


_built = {}


def build_mreplay():
    if 'exe' in _built:
        return _built['exe'], _built.get('err')
    d = scratch('mreplay')
    crate = os.path.join(d, 'mreplay')
    shutil.copytree(os.path.join(MIRSYM, 'replay'), crate, ignore=shutil.ignore_patterns('target', 'Cargo.lock'))
    toml = open(os.path.join(crate, 'Cargo.toml')).read().replace('path = "/repo"', 'path = "%s"' % REPO)
    open(os.path.join(crate, 'Cargo.toml'), 'w').write(toml)
    if os.path.exists(os.path.join(REPO, 'Cargo.lock')):
        shutil.copy(os.path.join(REPO, 'Cargo.lock'), crate)
    from util import run as urun
    rc, out, wall = urun(['cargo', 'build', '--offline', '--quiet'], cwd=crate, timeout=900)
    exe = os.path.join(crate, 'target', 'debug', 'mreplay')
    _built['exe'] = exe
    if rc != 0 or not os.path.exists(exe):
        _built['err'] = 'native replay crate does not build: ' + out[-600:]
    return exe, _built.get('err')


def replay_file(prop, rec):
    """Confirm a mirsym finding against the real crate: native sweep over small configurations (see replay/src/main.rs)."""
    from util import run as urun
    sc, kc = rec['scenario'], rec['class']
    exe, err = build_mreplay()
    if err:
        return False, err
    if kc == 'provenance':
        # write permission of a derived pointer: not observable natively; the aliasing model is executed by Miri (Tree Borrows - Stacked
        # Borrows rejects the unchanged chunks_from_slice_mut, which no property is about)
        crate = os.path.dirname(os.path.dirname(os.path.dirname(exe)))
        rc, out, wall = urun(['cargo', '+nightly', 'miri', 'run', '--offline', '--', 'mutprov', 'x'], cwd=crate, timeout=1800,
                             env=dict(base_env(), MIRIFLAGS='-Zmiri-tree-borrows'))
        m = re.search(r'error: Undefined Behavior: (.*)', out)
        if m:
            loc = re.search(r'-->\s*(\S*src/main.rs:\d+)', out)
            return True, 'Miri (Tree Borrows) on a driver that writes through every mutable view of the API: Undefined Behavior: %s%s' % (m.group(1)[:200], (' at ' + loc.group(1)) if loc else '')
        if 'every mutable view accepted the writes' in out:
            return False, 'not reproduced: Miri (Tree Borrows) accepts a write through every mutable view'
        mp = re.search(r"panicked at (src/main\.rs:\d+):\d+:\s*\n?([^\n]*)", out)
        if mp:
            # the driver's own assertions (Ok / Err outcome of the fallible reinterpretations, values seen through the views) hold on the
            # unchanged crate: a failing one is a native difference in behaviour at that call
            return True, 'the driver that exercises every view of the API fails an assertion of its own under Miri at %s: %s' % (mp.group(1), mp.group(2)[:200])
        return False, 'Miri run failed: ' + out[-300:]
    if kc == 'use-after-free':
        # the drop counts come out right natively (the freed block usually still holds the bits): the native sweep runs under Miri, which
        # reports the access to the freed block
        crate = os.path.dirname(os.path.dirname(os.path.dirname(exe)))
        rc, out, wall = urun(['cargo', '+nightly', 'miri', 'run', '--offline', '--', sc, 'double-drop'], cwd=crate, timeout=2400,
                             env=dict(base_env(), MIRIFLAGS='-Zmiri-tree-borrows -Zmiri-ignore-leaks'))
        m = re.search(r'error: Undefined Behavior: (.*)', out)
        if m:
            return True, 'Miri on the native sweep of %s (N <= 4, every panic point): Undefined Behavior: %s' % (sc, m.group(1)[:240])
        if 'NOT-REPRODUCED' in out or 'REPRODUCED' in out:
            return False, 'not reproduced: Miri accepts the native sweep of %s' % sc
        return False, 'Miri run failed: ' + out[-300:]
    # the guards' Drop impls are reached natively through the operations that use them
    via = {'drop.ArrayConsumer': ['map', 'fold', 'zip'], 'drop.IntrusiveArrayBuilder': ['generate', 'try_from_iter'], 'drop.ArrayBuilder': ['generate', 'try_from_iter']}.get(sc, [sc])
    for sc_ in via:
        rc, out, wall = urun([exe, sc_, kc], timeout=900)
        if rc != 0:
            break
    m = re.search(r'REPRODUCED (.*)', out)
    if rc == 1 and m:
        return True, 'native run of the real crate: ' + m.group(1)[:300]
    if rc not in (0, 1, 3) and 'NOT-REPRODUCED' not in out:
        return True, 'native sweep over the real crate died (rc=%s: memory corruption / abort): %s' % (rc, out.strip().splitlines()[-1][:200] if out.strip() else 'no output')
    return False, 'not reproduced natively: ' + (out.strip().splitlines()[-1][:300] if out.strip() else 'rc=%s' % rc)
