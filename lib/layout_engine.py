"""Engine L glue: run the layout encoder over /repo's source, turn obligations into units / violations, confirm natively."""
import json, os, re, shutil
from util import *

LAYOUT = os.path.join(VERIF, 'engines', 'layout')


def run(ctx, spec, units, violations, inconcl, meta):
    prop = ctx['prop']
    rc, out, wall = run_cmd(['python3-vt', os.path.join(LAYOUT, 'layout.py'), REPO], 900)
    lm = meta['engines'].setdefault('L', {'tool': 'layout.py (repr(C)/repr(transparent) rules as 64-bit bit-vector constraints) + z3', 'wall_s': round(wall, 2)})
    try:
        d = json.loads(out[out.index('{'):])
    except Exception:
        inconcl.append(('L', 'layout encoder produced no result (rc=%s): %s' % (rc, out[-600:])))
        return
    lm.update({'queries': d.get('queries', 0), 'solver_s': d.get('solver_s', 0), 'induction_argument': d.get('induction', ''),
               'element_layouts': 'size_of T < 2^61, align_of T = 2^e with e <= 29, size a multiple of the alignment (includes aligned ZSTs and packed types); child size any multiple of the alignment'})
    for why in d.get('inconclusive', []):
        inconcl.append(('L', why))
    for o in d['obligations']:
        v = {'discharged': 'pass', 'refuted': 'violation', 'unknown': 'inconclusive'}[o['status']]
        units.append({'engine': 'L', 'name': 'L:' + o['name'], 'verdict': v, 'obligations': 1, 'discharged': 1 if v == 'pass' else 0,
                      'bounds': 'all lengths N by induction over the even/odd recursion; all element layouts (symbolic size and alignment)',
                      'sample': {'obligation': o['name'], 'status': o['status'], 'about': o['explain']}})
        if v == 'inconclusive':
            inconcl.append(('L:' + o['name'], 'solver returned unknown'))
        if v == 'violation':
            violations.append(make_violation(prop, o))


def run_cmd(cmd, timeout):
    from util import run as urun
    return urun(cmd, cwd=LAYOUT, timeout=timeout)


def make_violation(prop, o):
    path = os.path.join(REPLAY_DIR, prop, 'L_%s.json' % re.sub(r'[^A-Za-z0-9]+', '_', o['name'])[:70])
    rec = {'engine': 'layout', 'property': prop, 'obligation': o['name'], 'witness': o.get('witness'), 'about': o['explain'],
           'how_to_replay': './check %s --replay %s' % (prop, path)}

    def do():
        os.makedirs(os.path.dirname(path), exist_ok=True)
        json.dump(rec, open(path, 'w'), indent=1)
        return replay_file(prop, rec)
    return {'unit': 'L:' + o['name'], 'what': 'layout obligation refuted: %s (witness %s; %s)' % (o['name'], json.dumps(o.get('witness'))[:200], o['explain'][:200]),
            'path': path, 'replay': do, 'engine': 'L'}


def replay_file(prop, rec):
    """Build the native layout probe against /repo; if the default build shows nothing, retry with rustc's layout randomisation
    (a missing #[repr(C)] only shows when the compiler uses the freedom repr(Rust) gives it)."""
    from util import run as urun
    d = scratch('lreplay')
    crate = os.path.join(d, 'lreplay')
    shutil.copytree(os.path.join(LAYOUT, 'replay'), crate, ignore=shutil.ignore_patterns('target', 'Cargo.lock'))
    toml = open(os.path.join(crate, 'Cargo.toml')).read().replace('path = "/repo"', 'path = "%s"' % REPO)
    open(os.path.join(crate, 'Cargo.toml'), 'w').write(toml)
    if os.path.exists(os.path.join(REPO, 'Cargo.lock')):
        shutil.copy(os.path.join(REPO, 'Cargo.lock'), crate)
    notes = []
    for seed in (None, 1, 2, 3, 5, 8):
        env = base_env()
        cmd = ['cargo', 'run', '--offline', '--quiet']
        if seed is not None:
            env['RUSTFLAGS'] = '-Zrandomize-layout -Zlayout-seed=%d' % seed
            cmd = ['cargo', '+nightly', 'run', '--offline', '--quiet', '--target-dir', os.path.join(d, 'target-rand%d' % seed)]
        rc, out, wall = urun(cmd, cwd=crate, env=env, timeout=900)
        m = re.search(r'REPRODUCED (.*)', out)
        if m:
            return True, ('native build' if seed is None else 'native build with -Zrandomize-layout -Zlayout-seed=%d (layout freedom of repr(Rust))' % seed) + ': ' + m.group(1)[:300]
        notes.append('%s: %s' % ('default' if seed is None else 'seed %d' % seed, 'no mismatch' if 'NOT-REPRODUCED' in out else 'rc=%s %s' % (rc, out[-200:])))
    return False, 'not reproduced natively (' + '; '.join(notes) + ')'
