"""Engine K: run Kani/CBMC over the harness crate (path dependency on /repo) and classify results.

A *run* is one `cargo kani` invocation: a set of harness filters plus extra flags.  The verdict of each
harness is taken from Kani's `--export-json` report, i.e. from CBMC's per-property statuses:

  pass          every property SUCCESS/UNREACHABLE, every plain cover SATISFIED, every cover whose
                description starts with MUST_NOT_REACH is UNSATISFIABLE/UNREACHABLE
  violation     a property failed (or a MUST_NOT_REACH cover is satisfied)
  inconclusive  unwinding assertion failed, timeout, out of memory, solver error, undetermined only,
                vacuity (a plain cover not satisfied), build failure
"""
import json, os, re, shutil, time
from util import *

KANI_SRC = os.path.join(VERIF, 'engines', 'kani')
MEM_KB = int(os.environ.get('VERIF_KANI_MEM_KB', str(32 * 1000 * 1000)))


class HarnessResult:
    def __init__(s, name):
        s.name = name
        s.verdict = 'inconclusive'
        s.reason = ''
        s.failed = []        # [(category, description, function, file:line)]
        s.props = {}
        s.covers_ok = 0
        s.covers_total = 0
        s.duration = 0.0
        s.solver_s = 0.0
        s.should_panic = False
        s.flags = []
        s.src = None

    def to_sample(s):
        d = {'harness': s.name, 'verdict': s.verdict, 'cbmc_properties': s.props.get('total_properties') or 0,
             'covers_satisfied': '%d/%d' % (s.covers_ok, s.covers_total), 'wall_s': round(s.duration, 2)}
        if s.flags:
            d['flags'] = ' '.join(s.flags)
        if s.reason:
            d['reason'] = s.reason
        return d


def prepare_crate(tag):
    """Copy the harness crate to a scratch directory (cargo writes Cargo.lock next to the manifest)."""
    d = scratch(tag)
    crate = os.path.join(d, 'kani')
    shutil.copytree(KANI_SRC, crate, ignore=shutil.ignore_patterns('target', 'Cargo.lock'))
    toml = open(os.path.join(crate, 'Cargo.toml')).read().replace('path = "/repo"', 'path = "%s"' % REPO)
    open(os.path.join(crate, 'Cargo.toml'), 'w').write(toml)
    lock = os.path.join(REPO, 'Cargo.lock')
    if os.path.exists(lock):
        shutil.copy(lock, os.path.join(crate, 'Cargo.lock'))
    return d, crate


def target_dir(scratch_dir, tag):
    cache = os.environ.get('VERIF_CACHE')
    if cache:
        t = os.path.join(cache, tag)
        os.makedirs(t, exist_ok=True)
        return t
    return os.path.join(scratch_dir, 'target')


def run_kani(crate, tdir, filters, flags=(), harness_timeout=300, jobs=None, exact=False, log=None, overall_timeout=None):
    """One cargo-kani invocation. Returns (list[HarnessResult], build_error|None, raw_output, wall)."""
    out_json = os.path.join(os.path.dirname(crate), 'kani-%d.json' % int(time.time() * 1000))
    cmd = ['cargo', 'kani', '--target-dir', tdir, '--output-format', 'terse',
           '-Z', 'unstable-options', '--harness-timeout', '%ds' % harness_timeout,
           '--export-json', out_json]
    jobs = jobs or min(NCPU, 16)
    cmd += ['-j', str(jobs)]
    for f in filters:
        cmd += ['--harness', f]
    if exact:
        cmd += ['--exact']
    cmd += list(flags)
    env = base_env()
    rc, out, wall = run(cmd, cwd=crate, env=env, mem_kb=MEM_KB, log=log,
                        timeout=overall_timeout or (harness_timeout * 40 + 600))
    if not os.path.exists(out_json):
        m = re.search(r'(error(\[E\d+\])?:.*?)(\n\n|\Z)', out, re.S)
        return [], 'kani produced no report (rc=%s): %s' % (rc, (m.group(1) if m else out[-1500:])), out, wall
    rep = json.load(open(out_json))
    os.remove(out_json)
    res = {}
    for hm in rep.get('harness_metadata', []):
        r = HarnessResult(hm['pretty_name'])
        r.should_panic = hm['attributes'].get('should_panic', False)
        r.src = '%s:%s' % (hm['source']['file'], hm['source']['start_line'])
        r.flags = [f for f in flags if f not in ('-Z', 'unstable-options')]
        res[r.name] = r
    for pd in rep.get('property_details', []):
        if pd['harness_id'] in res:
            res[pd['harness_id']].props = pd['property_details'] or {}
    for c in rep.get('cbmc', []):
        if c['harness_id'] in res:
            res[c['harness_id']].solver_s = (c.get('cbmc_stats') or {}).get('runtime_decision_procedure_s', 0.0) or 0.0
    seen = set()
    for vr in rep.get('verification_results', {}).get('results', []):
        r = res.get(vr['harness_id'])
        if r is None:
            continue
        seen.add(r.name)
        r.duration = vr.get('duration_ms', 0) / 1000.0
        classify(r, vr)
    # harnesses selected but without a result (timeout / crash) stay inconclusive
    for name, r in res.items():
        if name not in seen:
            r.reason = 'no verification result (timeout after %ds, out of memory or CBMC crash)' % harness_timeout
    # Kani prints timeouts only in text form
    for m in re.finditer(r'Harness ([\w:]+) timed out', out):
        if m.group(1) in res:
            res[m.group(1)].verdict = 'inconclusive'
            res[m.group(1)].reason = 'timeout after %ds' % harness_timeout
    return list(res.values()), None, out, wall


def classify(r, vr):
    checks = vr.get('checks', [])
    unwind_fail, real_fail, must_not, vac, unsupported = [], [], [], [], []
    undet = 0
    panics = 0
    for c in checks:
        st, cat, desc = c['status'], c.get('category', ''), c.get('description', '')
        loc = c.get('location') or {}
        where = '%s:%s' % (loc.get('file', '?'), loc.get('line', '?'))
        if cat == 'cover':
            if desc.startswith('MUST_NOT_REACH'):
                r.covers_total += 1
                if st == 'Satisfied':
                    must_not.append(('cover', desc, c.get('function', ''), where))
                else:
                    r.covers_ok += 1
            else:
                r.covers_total += 1
                if st == 'Satisfied':
                    r.covers_ok += 1
                else:
                    vac.append(desc + ' @' + where + ' [' + st + ']')
            continue
        if st == 'Failure':
            if cat == 'unwind':
                unwind_fail.append(where)
            elif cat == 'unsupported_construct':
                unsupported.append(desc.split('.')[0] + ' @' + where)
            else:
                real_fail.append((cat, desc, c.get('function', ''), where))
                if cat == 'assertion':
                    panics += 1
        elif st in ('Undetermined',):
            undet += 1
        elif st not in ('Success', 'Unreachable', 'Satisfied', 'Unsatisfiable'):
            undet += 1
    status = vr.get('status')
    if unwind_fail:
        r.verdict, r.reason = 'inconclusive', 'unwinding assertion failed at ' + ', '.join(unwind_fail[:3])
        return
    if unsupported and not real_fail and not must_not:
        r.verdict, r.reason = 'inconclusive', 'reachable construct Kani cannot translate: ' + '; '.join(unsupported[:2])
        return
    if r.should_panic:
        # Kani: success iff >=1 panic-type failure and no other failure. We additionally require that
        # the call never returns (MUST_NOT_REACH covers) - checked above.
        others = [f for f in real_fail if f[0] != 'assertion']
        if others:
            r.verdict, r.failed = 'violation', others
        elif must_not:
            r.verdict, r.failed = 'violation', must_not
        elif panics == 0:
            r.verdict, r.failed = 'violation', [('should_panic', 'expected panic did not occur on any path', '', r.src or '')]
        elif vac:
            r.verdict, r.reason = 'inconclusive', 'vacuity witness not satisfied: ' + '; '.join(vac[:3])
        else:
            r.verdict = 'pass'
        return
    if real_fail or must_not:
        r.verdict, r.failed = 'violation', real_fail + must_not
        return
    if status != 'Success':
        r.verdict, r.reason = 'inconclusive', 'kani status %s (%d undetermined)' % (status, undet)
        return
    if vac:
        r.verdict, r.reason = 'inconclusive', 'vacuity witness not satisfied: ' + '; '.join(vac[:3])
        return
    r.verdict = 'pass'


def playback_values(crate, tdir, harness, flags=(), timeout=600):
    """Re-run one failing harness with concrete playback and return the ordered byte vectors."""
    cmd = ['cargo', 'kani', '--target-dir', tdir, '--harness', harness, '--exact',
           '-Z', 'unstable-options', '-Z', 'concrete-playback', '--concrete-playback=print'] + [f for f in flags]
    rc, out, wall = run(cmd, cwd=crate, mem_kb=MEM_KB, timeout=timeout)
    tests = []
    for m in re.finditer(r'/// Check for `([^`]*)`: "(.*?)"\s*\n(?:\s*///[^\n]*\n|\s*\n)*#\[test\]\s*\nfn \w+\(\) \{\s*let concrete_vals: Vec<Vec<u8>> = vec!\[(.*?)\];', out, re.S):
        kind, desc = m.group(1), m.group(2).strip('"')
        vals = []
        for vm in re.finditer(r'vec!\[([0-9,\s]*)\]', m.group(3)):
            vals.append([int(x) for x in vm.group(1).replace('\n', ' ').split(',') if x.strip()])
        tests.append((kind, desc, vals))
    return tests, out
