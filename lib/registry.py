"""Per-property configuration of the checks: which engine runs what, with which bounds."""

def krun(filters, flags=(), timeout=300, bounds='', jobs=None):
    return {'filters': list(filters), 'flags': list(flags), 'timeout': timeout, 'bounds': bounds, 'jobs': jobs}

LEAK = ['-Z', 'unstable-options', '--cbmc-args', '--memory-leak-check']

PROPS = {}

PROPS['C02'] = {
    'kani': {
        'quick': [krun(['c02::q::'], bounds='N in {0,1,2,3,4,5,7,8}; slice length L symbolic in 0..=N+3; T in {u8,u32,(),(u8,u16),A16}; tuples 1..=12 of symbolic u32')],
        'thorough': [krun(['c02::'], timeout=900, bounds='quick lattice + N in {4,6,7,9,12,15,16,17,31,32,33,64,65}; L symbolic in 0..=N+3')],
    },
    'functions': ['GenericArray::{as_slice,as_mut_slice,from_slice,try_from_slice,from_mut_slice,try_from_mut_slice,from_array,into_array}',
                  'Deref/DerefMut/AsRef/AsMut/Borrow/BorrowMut<[T]>', 'TryFrom<&[T]>/<&mut [T]>', 'From<&[T;N]>/<&mut [T;N]>', 'AsRef/AsMut<[T;N]>',
                  'From<[T;N]>/Into<[T;N]>', 'tuple From impls 1..=12', '&GenericArray/&mut GenericArray: IntoIterator'],
    'bounds': 'K: concrete (T,N) instantiations from the lattice, every slice length, index, written value and view selector symbolic.',
    'outside': ['lengths not in the lattice for K (M decides the length checks for all 64-bit N)', 'drop-tracked element types (C03)'],
    'assumptions': ['kani::assume(L <= N+3) on the source slice length', 'index i < N for the write-through index'],
}

NOT_APPLICABLE = {
    'C12': 'decided by rustc\'s trait solver and borrow checker over whole programs; bounded symbolic execution of function bodies cannot decide "this program does not type-check" and an SMT encoding of trait resolution/NLL is out of reach (a compile-fail corpus would be a different technique family).',
}

PROPS['C06'] = {
    'kani': {
        'quick': [krun(['c06::q::'], timeout=600, bounds='N in 0..=5: every (front, back) position symbolic, one symbolically chosen operation out of 12 with an unconstrained usize argument; 4-operation sequence on N=3; Debug on N in {0,2}')],
        'thorough': [krun(['c06::'], timeout=1800, bounds='N in 0..=8 inductive step; 4-operation sequences on N in 0..=4; Debug N in 0..=3')],
    },
    'functions': ['GenericArrayIter::{next,next_back,nth,nth_back,len,size_hint,as_slice,as_mut_slice,clone,fold,rfold,count,last,fmt}', 'GenericArray::into_iter'],
    'bounds': 'K: N <= 5 (thorough 8); position (f,b) symbolic over all (N+1)(N+2)/2 reachable positions; nth/nth_back argument any usize.',
    'outside': ['N > 8 in K (M decides the index arithmetic of the loop-free methods for all 64-bit N)', '{:#?} alternate Debug (delegation shown by M)'],
    'assumptions': ['f + b <= N (reachable positions)'],
}

PROPS['C03'] = {
    'kani': {
        'quick': [krun(['c03::q::', 'c03::chains::', 'c15::q::from_heap::', 'c07::q::collect::'], timeout=900, bounds='N <= 4 (iterator ops: every (front,back) position and one of 10 operations symbolic, nth argument any usize); functional/conversions N in {0,1,3,4}; split/concat/remove/flatten/native on the listed (N,K) / (N,M) instantiations')],
        'thorough': [krun(['c03::', 'c15::q::from_heap::', 'c15::t::from_heap::'], timeout=2400, bounds='N <= 8; more (N,K), (N,M) pairs; tuples to arity 12')],
    },
    'functions': ['GenericArrayIter::*', 'GenericArray::{generate,map,zip,fold,clone,from_array,into_array,try_from_iter,from_iter,try_boxed_from_iter,into_vec,into_boxed_slice,try_from_vec,try_from_boxed_slice}',
                  'Lengthen/Shorten/Split/Concat/Remove/Flatten/Unflatten for GenericArray', 'From/TryFrom between GenericArray, Vec, Box<[T]>, tuples'],
    'bounds': 'K: N <= 4 quick / 8 thorough, drop-tracked Tr (identity, double-drop and use-after-drop assertions) and drop-counting ZST; histories by the inductive-step argument: each operation is started from an arbitrary valid ownership state and must conserve ownership.',
    'outside': ['panicking paths (C04/C05, engine M)', 'N > 8'],
    'assumptions': ['f + b <= N', 'composition: the only state between two operations is a set of fully-owned arrays and iterators owning [front, back) - stated in DESIGN.md C03'],
}

PROPS['C05'] = {
    'kani': {
        'quick': [krun(['c05::q::'], timeout=600, bounds='N in {0,1,3,5}; (front,back) and the skip count symbolic (any usize); nth and nth_back')],
        'thorough': [krun(['c05::'], timeout=1800, bounds='N in 0..=8')],
    },
    'functions': ['GenericArrayIter::{nth,nth_back}'],
    'bounds': 'K observation harness: N <= 5 (thorough 8), position and skip count symbolic. The panicking paths themselves are decided by M.',
    'outside': ['actual unwinding (K has panic=abort): engine M'],
    'assumptions': ['f + b <= N'],
}
PROPS['C04'] = {
    'kani': {
        'quick': [krun(['c04::q::'], timeout=600, bounds='N in {0,1,3,4}; guard position p symbolic in 0..=N; ArrayBuilder, IntrusiveArrayBuilder, ArrayConsumer')],
        'thorough': [krun(['c04::'], timeout=1800, bounds='N in 0..=5 and 8')],
    },
    'functions': ['ArrayBuilder::drop', 'IntrusiveArrayBuilder::drop', 'ArrayConsumer::drop', 'iter_position'],
    'bounds': 'K: drop of the three guards at every position p <= N <= 4 (thorough 8). The panicking paths are decided by M.',
    'outside': ['actual unwinding (K has panic=abort): engine M'],
    'assumptions': [],
}

PROPS['C07'] = {
    'kani': {
        'quick': [krun(['c07::q::'], timeout=900, bounds='N in {0,1,2,3,5}; item count c symbolic in 0..=N+3; size_hint (lo, hi?) unconstrained (exact, loose, absent, lying either way); non-fused source; stack and boxed forms')],
        'thorough': [krun(['c07::'], timeout=2400, bounds='N in 0..=8')],
    },
    'functions': ['GenericArray::try_from_iter', 'GenericArray::try_boxed_from_iter', 'FromIterator for GenericArray / Box<GenericArray>', 'IntrusiveArrayBuilder::{extend,is_full,finish}'],
    'bounds': 'K: N <= 5 (thorough 8); item count 0..=N+3 and both size_hint bounds fully symbolic.',
    'outside': ['sources that panic (C04, engine M)', 'the text of the panic message (Kani does not model formatted panic messages)', 'N > 8'],
    'assumptions': ['count <= N+3'],
}

PROPS['C08'] = {
    'kani': {
        'quick': [krun(['c08::q::'], timeout=900, bounds='N in 0..=4; receiver form symbolic: map/fold owned,&,&mut,Box; zip nine stack forms + Box x Box; plain u32 (no-drop path, symbolic salt) and tracked Tr (drop-aware path); Clone/Default via recording element type')],
        'thorough': [krun(['c08::'], timeout=2400, bounds='N in 0..=8')],
    },
    'functions': ['GenericSequence::generate (GenericArray, Box<GenericArray>)', 'FunctionalSequence::{map,zip,fold} (GenericArray, &S, &mut S, Box)', 'GenericSequence::{inverted_zip,inverted_zip2} (both specialised bodies and both trait defaults)', 'Clone, Default for GenericArray', 'default_boxed'],
    'bounds': 'K: N <= 4 (thorough 8); witness index and form selector symbolic.',
    'outside': ['N > 8'],
    'assumptions': [],
}

PROPS['C09'] = {
    'kani': {
        'quick': [krun(['c09::q::', 'c03::q::seq::rm'], timeout=900, bounds='N <= 5 (remove: also 7; drop-tracked remove / swap_remove from the C03 harnesses), element sizes 0/1/8/24 bytes, symbolic contents, symbolic index; split at K in {0,1,2,4}; remove/swap_remove with every idx < N, and every idx >= N (must panic)')],
        'thorough': [krun(['c09::'], timeout=2400, bounds='N <= 8 plus 15,16,17,33; more (N,K) pairs')],
    },
    'functions': ['Lengthen::{append,prepend}', 'Shorten::{pop_back,pop_front}', 'Split::split (owned, &, &mut)', 'Concat::concat', 'Remove::{remove,swap_remove,remove_unchecked,swap_remove_unchecked}'],
    'bounds': 'K: concrete (T,N,K) instantiations; contents, indices and the operation selector symbolic; CBMC pointer checks cover out-of-bounds reads.',
    'outside': ['drop accounting on the idx >= N panic path (needs unwinding: engine M)', 'lengths outside the lattice'],
    'assumptions': [],
}

PROPS['C10'] = {
    'kani': {
        'quick': [krun(['c10::q::'], timeout=900, bounds='N in {1,2,3} (and 0), slice length L symbolic in 0..=4N+3, T in {u8,u32,(),(u8,u16)}, shared and mutable; from_chunks/into_chunks on [[T;N];C] with symbolic count')],
        'thorough': [krun(['c10::'], timeout=2400, bounds='N in {1,2,3,4,5,7,8,16}, L in 0..=4N+3')],
    },
    'functions': ['GenericArray::{chunks_from_slice,chunks_from_slice_mut,slice_from_chunks,slice_from_chunks_mut,from_chunks,from_chunks_mut,into_chunks,into_chunks_mut}'],
    'bounds': 'K: concrete (T,N); L, the witness index and the written value symbolic.',
    'outside': ['N > 16 in K (M decides the chunk arithmetic for all 64-bit N, L and element sizes)', 'const-evaluator clause: see C18'],
    'assumptions': ['L <= 4N+3'],
}
PROPS['C11'] = {
    'kani': {
        'quick': [krun(['c11::q::', 'c03::q::seq::fl_'], timeout=900, bounds='(N,M) in {(1,1),(2,3),(3,2),(2,2),(4,1)} + degenerate (0,3),(2,0),(0,0); owned, & and &mut; symbolic contents and (i,j)')],
        'thorough': [krun(['c11::', 'c03::q::seq::fl_', 'c03::t::seq::fl_'], timeout=3000, bounds='(N,M) up to (6,6) plus (1,16),(16,1),(4,8)')],
    },
    'functions': ['Flatten::flatten (owned, &, &mut)', 'Unflatten::unflatten (owned, &, &mut)', 'const_transmute'],
    'bounds': 'K: concrete (T,N,M); contents, (i,j) and written values symbolic.',
    'outside': ['pairs such as (1,1024): type/size level only', 'drop accounting: C03'],
    'assumptions': [],
}

PROPS['C13'] = {
    'kani': {
        'quick': [krun(['c13::q::'], timeout=600, bounds='N in 0..=4; fully symbolic pairs over u8, i32, f64 (all bit patterns incl. NaN), nested GenericArray<u8,U2>; recording Hasher; non-alternate Debug with symbolic width/precision over token elements')],
        'thorough': [krun(['c13::'], timeout=2400, bounds='N in 0..=8')],
    },
    'functions': ['PartialEq/Eq/PartialOrd/Ord/Hash/Debug/Borrow<[T]> for GenericArray'],
    'bounds': 'K: N <= 4 (thorough 8), every element value symbolic.',
    'outside': ['String elements', 'real HashMap (SipHash) runs', 'float-to-decimal formatting', 'executing {:#?} (PadAdapter loops exhaust CBMC; covered by M\'s delegation obligation)'],
    'assumptions': [],
}

PROPS['C19'] = {
    'kani': {
        'quick': [krun(['c19::q::'], flags=['-Z', 'stubbing'], timeout=900, bounds='every N in 0..=8 (all even/odd storage shapes to depth 4); symbolic prior contents; T in {u8,u64,[u8;3],GenericArray<u8,U2>,ZD (zero != default per field)}; witness index symbolic')],
        'thorough': [krun(['c19::'], flags=['-Z', 'stubbing'], timeout=2400, bounds='N in 0..=17, 21, 26, 31..=33, 42, 63, 64, 127, 128, 255, 256')],
    },
    'functions': ['Zeroize for GenericArray', 'ConstDefault for GenericArrayImplEven/GenericArrayImplOdd/GenericArray', 'GenericArray::const_default', 'Default for GenericArray'],
    'bounds': 'K: concrete N from the lattice, contents and witness index symbolic.',
    'outside': ['N outside the lattice (L: every node literal names every field; slot count follows the layout induction)'],
    'assumptions': ['stub: zeroize::optimization_barrier (inline-asm compiler barrier without semantic effect) replaced by an empty body (-Z stubbing)'],
}

PROPS['C01'] = {
    'kani': {
        'quick': [krun(['c01::q::', 'gen_c01::q::', 'c10::q::native::'], timeout=900, bounds='element addresses at a symbolic index for N <= 8 over u8,u32,u64,(u8,u16),A16(align 16),Z8(aligned ZST),(),[u8;3],[u64;3]; type-level size/alignment equalities for every N in 0..=64 and 127..1024 boundary values (u8, (u8,u16)), N <= 33 (A16, Z8), and every typenum-named 2^k, 2^k-1, 10^k up to 2^63 (u8 up to 2^60, aligned ZST above)')],
        'thorough': [krun(['c01::', 'gen_c01::', 'c10::q::native::', 'c10::t::native::'], timeout=2400, jobs=6, bounds='quick + every N in 0..=1024 for u8,(u8,u16),A16; 0..=256 for [u64;3]; element addresses up to N = 65')],
    },
    'functions': ['GenericArray (repr(transparent))', 'GenericArrayImplEven / GenericArrayImplOdd (repr(C))', 'ArrayLength::ArrayType for UTerm/UInt<N,B0>/UInt<N,B1>', 'GenericArray::{as_slice, as_ref::<[T;N]>}', 'ConstDefault for the storage nodes'],
    'bounds': 'K validates against rustc; L (layout induction) is the deciding step for all N.',
    'outside': ['element types outside the list', 'K: lengths outside the lattice (covered by L\'s induction)'],
    'assumptions': ['address identity only asserted for arrays occupying at least one byte (Kani gives zero-sized objects no stable address)'],
}
PROPS['C20'] = {
    'kani': {
        'quick': [krun(['gen_c20::q::', 'gen_c20::syntax::'], flags=['--features', 'c20'], timeout=900, bounds='list form arity in {0..=8,12,16,31,32,33,64} with side-effecting element expressions (evaluation log) and a symbolic salt; tracked non-Copy elements up to arity 40; repeat forms N in {0,1,3,8}; const items; trailing commas; empty list; box_arr! all three forms')],
        'thorough': [krun(['gen_c20::'], flags=['--features', 'c20'], timeout=2400, bounds='every arity 0..=64 and 100, 128, 255, 256; repeat forms N in {0,1,2,3,5,8,16,33,64}')],
    },
    'functions': ['arr!', 'box_arr!', 'GenericArray::__from_vec_helper', 'GenericArray::from_array', 'const_transmute', 'GenericArray::try_from_vec'],
    'bounds': 'K: generated invocations by arity; values (salt) and witness index symbolic. The arity -> length mapping is the compiler\'s: every binding is annotated with the expected typenum length, so a wrong mapping is a build error (exit 2 with the diagnostic).',
    'outside': ['arities outside the lattice'],
    'assumptions': [],
}

PROPS['C14'] = {
    'kani': {
        'quick': [krun(['c14::q::'], timeout=1200, bounds='N in {0,1,2,15,16,17,20} (both sides of the N<16 strategy threshold; at 20 the 2N-byte buffer is at least 8 bytes longer than twice a 16..=18-byte encoder input); all byte values; precision None or symbolic in 0..=2N+2; lower and upper case; fallback encoder (feature faster-hex off)')],
        'thorough': [krun(['c14::'], timeout=3600, bounds='N in 0..=17 and 31..=33')],
    },
    'functions': ['generic_hex', 'hex_encode', 'hex_encode_fallback', 'LowerHex/UpperHex for GenericArray<u8,N>'],
    'bounds': 'K end to end: N <= 17 (thorough 33), bytes/precision/case symbolic. Sink capacity 96 bytes.',
    'outside': ['feature faster-hex on: the SIMD kernels (inline asm/intrinsics) cannot be encoded; only the crate-side preconditions are claimed (M)', 'N >= 1023 end to end (the two larger strategies): M decides their index arithmetic per strategy'],
    'assumptions': ['precision <= 2N+2'],
}

PROPS['C15'] = {
    'kani': {
        'quick': [krun(['c15::q::', 'c07::q::collect::'], timeout=900, bounds='N in {0,1,3}; Vec/Box<[T]> sources of length 0, N-1, N, N+1 with spare capacity 0..=2 (one harness per combination), conversion form symbolic; tracked elements; block identity for u32,u64,(); boxed constructors with symbolic salt')],
        'thorough': [krun(['c15::'], timeout=2400, bounds='N up to 8')],
    },
    'functions': ['TryFrom<Vec<T>>/TryFrom<Box<[T]>> for GenericArray', 'GenericArray::{into_boxed_slice,into_vec,try_from_boxed_slice,try_from_vec,default_boxed,try_boxed_from_iter}', 'From<GenericArray> for Vec<T>/Box<[T]>', 'FromIterator for Box<GenericArray>', 'GenericSequence::generate for Box<GenericArray>', 'IntoIterator for Box<GenericArray>'],
    'bounds': 'K: N <= 4 (thorough 8); source length, spare capacity, witness index symbolic.',
    'outside': ['"arrays far larger than the thread\'s stack": stack depth is modelled by neither engine', 'N > 8'],
    'assumptions': ['block identity asserted only for arrays of non-zero byte size'],
}
PROPS['C16'] = {
    'kani': {
        'quick': [krun(['c16::q::ops::', 'c16::q::ops_payload::', 'c16::q::box_arr_payload::'], flags=['--cbmc-args', '--memory-leak-check'], timeout=900,
                       bounds='every alloc-feature operation (11 operations, one harness each) x N in {0,1,3} x T in {u64,()} under Kani\'s allocator model (zero-size request and dealloc-size assertions) with --memory-leak-check; heap-payload elements'),
                  krun(['c16::q::ops_fail::', 'c16::q::ops_align::'], flags=['-Z', 'stubbing'], timeout=900,
                       bounds='allocation failure injected nondeterministically at every alloc::alloc::alloc call (stub); handle_alloc_error stubbed as end-of-path; N in {0,1,3}')],
        'thorough': [krun(['c16::q::ops::', 'c16::q::ops_payload::', 'c16::q::box_arr_payload::', 'c16::t::ops::', 'c16::t::ops_payload::'], flags=['--cbmc-args', '--memory-leak-check'], timeout=2400, bounds='N up to 8, more element types'),
                     krun(['c16::q::ops_fail::', 'c16::t::ops_fail::', 'c16::q::ops_align::', 'c16::t::ops_align::'], flags=['-Z', 'stubbing'], timeout=2400, bounds='N up to 8')],
    },
    'functions': ['every function of src/impl_alloc.rs', 'box_arr! helper'],
    'bounds': 'K: N <= 3 (thorough 8).',
    'outside': ['panicking closures (unwinding): engine M', 'blocks allocated and freed inside Vec/Box themselves are exercised through the real std code; std\'s own pairing is otherwise trusted'],
    'assumptions': ['stub: alloc::alloc::alloc may return null (ops_fail harnesses only)', 'stub: alloc::alloc::handle_alloc_error records that it was reached and ends the path'],
}

PROPS['C17'] = {
    'kani': {
        'quick': [krun(['c17::q::', 'c17::ql::'], timeout=900, bounds='N in {0,1,3} (and 17, 33: beyond the lengths the tuple / array impls of serde stop at); scripted SeqAccess: element count symbolic in 0..=N+2, up-front hint None or symbolic 0..=N+2 (exact, too small, too large, contradicting), later hint None or 0..=2, element error at a symbolic index; tracked elements; recording Serializer over symbolic u32 elements')],
        'thorough': [krun(['c17::'], timeout=2400, bounds='N in {0,1,2,3,4,8}')],
    },
    'functions': ['Serialize for GenericArray', 'Deserialize for GenericArray', 'GAVisitor::visit_seq', 'Dummy'],
    'bounds': 'K: N <= 3 (thorough 8).',
    'outside': ['concrete formats (JSON, bincode, serde_json::Value): loop- and float-heavy parsers; their behaviour at the SeqAccess interface is an instance of the scripted space', 'the property\'s own exclusion: a source claiming nothing is left while holding elements (assumed away)'],
    'assumptions': ['assume(!(later hint == Some(0) && count > N))', 'error type whose custom() ignores the message (error construction is not the subject)'],
}

PROPS['C18'] = {
    'kani': {
        'quick': [krun(['c18::q::', 'c18::degenerate::'], flags=['--features', 'c18'], timeout=900, bounds='real const items for N in {1,3,8} (slice length 3N+2) + degenerate N=0 / ZST / padded / u32 cases; every const fn of the API; witness indices symbolic; run-time call compared with the const item')],
        'thorough': [krun(['c18::'], flags=['--features', 'c18'], timeout=2400, bounds='N in {1,2,3,7,8,16}')],
    },
    'functions': ['GenericArray::{len,as_slice,as_mut_slice,from_slice,try_from_slice,from_mut_slice,try_from_mut_slice,chunks_from_slice,chunks_from_slice_mut,slice_from_chunks,slice_from_chunks_mut,from_array,into_array,from_chunks,into_chunks,uninit,assume_init,const_default}', 'arr!', 'const_transmute'],
    'bounds': 'K: const items on a small lattice (the compiler evaluates them; the harness compares with run time). M: CTFE MIR bodies for all N / L.',
    'outside': ['rustc\'s acceptance of const items for every length (const-checker rules, evaluator limits): the compiler\'s verdict, not a solver\'s; a rejection of the lattice items surfaces as a build error (exit 2)'],
    'assumptions': [],
}


def mrun(scenarios, nmax=3, timeout=1800):
    return {'scenarios': list(scenarios), 'nmax': nmax, 'timeout': timeout}

GUARDS = ['drop.ArrayConsumer', 'drop.ArrayBuilder', 'drop.IntrusiveArrayBuilder']
PROPS['C05']['mir'] = {
    'quick': [mrun(['iter.nth', 'iter.nth_back', 'iter.count', 'iter.last', 'iter.drop'] + GUARDS)],
    'thorough': [mrun(['iter.nth', 'iter.nth_back', 'iter.count', 'iter.last', 'iter.drop', 'iter.next', 'iter.next_back'] + GUARDS + ['try_from_iter', 'map', 'zip'], nmax=6)],
}
PROPS['C05']['technique'] = 'symbolic execution of rustc MIR with unwind edges + z3 (all 64-bit N for the loop-free iterator methods); Kani/CBMC observation harness'
PROPS['C05']['bounds'] = 'M: ALL 64-bit N, every (index, index_back), every skip count, every choice of the panicking destructor (unwind edge out of drop_in_place / drop). K: N <= 5 (thorough 8).'
PROPS['C05']['functions'] += ['GenericArrayIter::{count,last,drop,next,next_back}', 'ArrayBuilder/IntrusiveArrayBuilder/ArrayConsumer::drop']
PROPS['C05']['assumptions'] += ['language semantics: a value whose Drop::drop is already executing is not dropped again by the glue; a second panic during cleanup aborts',
                                'slice drop glue: when one element destructor panics the rest of the range is still dropped']
PROPS['C04']['mir'] = {
    'quick': [mrun(['generate', 'map', 'fold', 'zip', 'iter.clone', 'try_from_iter', 'box_generate'] + GUARDS, nmax=3)],
    'thorough': [mrun(['generate', 'map', 'fold', 'zip', 'iter.clone', 'try_from_iter', 'box_generate'] + GUARDS, nmax=6)],
}
PROPS['C04']['technique'] = 'symbolic execution of rustc MIR with unwind edges, drop flags and an element-ownership ledger + z3 (the panic point is a symbolic choice over every call of caller code); Kani/CBMC for the guards\' Drop impls'
PROPS['C04']['bounds'] = 'M: N <= 3 (thorough 6) symbolic with unwinding assertion, every call index of the closure / T::clone / source.next / size_hint as panic point, needs_drop symbolic; guards\' Drop: ALL N. K: N <= 4 (thorough 8).'
PROPS['C04']['functions'] += ['GenericSequence::generate (GenericArray, Box)', 'FunctionalSequence::{map,fold} for GenericArray', 'GenericArray::inverted_zip', 'GenericArrayIter::clone', 'GenericArray::try_from_iter', 'IntrusiveArrayBuilder::{new,iter_position,extend,is_full,finish,array_assume_init}', 'ArrayConsumer::{new,iter_position}', 'FromIterator::from_iter']
PROPS['C04']['assumptions'] += ['summaries of core iterator adaptors (slice::Iter/IterMut, Enumerate, Map, Zip: a.next() then b.next(), stop at first None; internal iteration = repeated next)',
                                'caller-supplied code consumes its by-value arguments and either returns a fresh owned value or panics']
PROPS['C04']['outside'] += ['trait-default map/zip/fold bodies for & / &mut / Box receivers on the unwind path (they delegate to core iterators and the by-value iterator, whose Drop is covered for all N)', 'N > 6 for the unrolled pipelines']
PROPS['C06']['mir'] = {
    'quick': [mrun(['iter.next', 'iter.next_back', 'iter.nth', 'iter.nth_back', 'iter.len', 'iter.size_hint', 'iter.count', 'iter.last', 'iter.as_slice'])],
}
PROPS['C06']['technique'] = 'bounded model checking with Kani/CBMC (inductive step vs. deque model) + symbolic execution of rustc MIR with z3 (post-state equations for all 64-bit N)'
PROPS['C06']['bounds'] += ' M: post-state equations of next/next_back/nth/nth_back/len/size_hint/count/last/as_slice and the invariant index <= index_back <= N for ALL 64-bit N.'
PROPS['C16']['mir'] = {'quick': [mrun(['box_generate'], nmax=3)], 'thorough': [mrun(['box_generate'], nmax=6)]}
PROPS['C16']['technique'] = 'bounded model checking with Kani/CBMC under its allocator model (+ failing-allocator stub); symbolic execution of rustc MIR with a heap-block ledger + z3 for the panicking generator'
PROPS['C07']['mir'] = {'quick': [mrun(['try_from_iter'], nmax=3)], 'thorough': [mrun(['try_from_iter'], nmax=6)]}

PROPS['C01']['layout'] = True
PROPS['C01']['technique'] = 'SMT (z3, 64-bit bit-vectors) over the repr(C)/repr(transparent) layout rules applied to the parsed storage-node definitions: base case + inductive step for all N and all element layouts; Kani/CBMC harnesses validate the model against rustc'
PROPS['C01']['bounds'] = 'L: ALL lengths (induction over the even/odd recursion), all element layouts with size < 2^61, alignment 2^e (e <= 29), size a multiple of alignment. K: lattice of concrete (T,N) instantiations.'
PROPS['C01']['assumptions'] += ['the Rust Reference\'s repr(C) algorithm and repr(transparent) guarantee', 'the 3-line induction over the binary digits of N (stated in the evidence) is carried out on paper; the solver discharges base case and both steps']
PROPS['C19']['layout'] = True
PROPS['C19']['bounds'] += ' L: each storage node consists of exactly two children (+ one element for odd lengths), so the slot count obeys cnt(2k) = 2 cnt(k), cnt(2k+1) = 2 cnt(k) + 1 for every N; the ConstDefault literals are exhaustive struct literals (enforced by rustc).'

IFF = ['iff.from_slice', 'iff.try_from_slice', 'iff.from_mut_slice', 'iff.try_from_mut_slice', 'iff.TryFrom', 'iff.TryFromMut']
IFF_CTFE = ['iff.from_slice.ctfe', 'iff.try_from_slice.ctfe', 'iff.from_mut_slice.ctfe', 'iff.try_from_mut_slice.ctfe']
VIEWS = ['view.as_slice', 'view.as_mut_slice', 'view.deref', 'view.deref_mut', 'view.as_ref', 'view.as_mut', 'view.borrow', 'view.borrow_mut', 'view.into_iter_ref', 'view.into_iter_mut']
CHUNKS = ['chunks.chunks_from_slice', 'chunks.chunks_from_slice_mut', 'unchunk.slice_from_chunks', 'unchunk.slice_from_chunks_mut']
CHUNKS_CTFE = [c + '.ctfe' for c in CHUNKS]
PROPS['C02']['mir'] = {'quick': [mrun(IFF + VIEWS)]}
PROPS['C02']['technique'] = 'symbolic execution of rustc MIR + z3 (length checks and view extents for ALL 64-bit N and slice lengths L) + bounded model checking with Kani/CBMC on concrete (T,N) instantiations'
PROPS['C02']['bounds'] += ' M: the reinterpreting cast is reached iff L == N, for ALL 64-bit N and L (from_slice, try_from_slice, from_mut_slice, try_from_mut_slice, both TryFrom impls); every borrowed view is (address of self, N) for ALL N.'
PROPS['C10']['mir'] = {'quick': [mrun(CHUNKS + CHUNKS_CTFE)]}
PROPS['C10']['technique'] = 'symbolic execution of rustc MIR (run-time and CTFE bodies) + z3 over mathematical integers with explicit wrap conditions (ALL N, L) + bounded model checking with Kani/CBMC'
PROPS['C10']['bounds'] += ' M: chunk count = floor(L/N), remainder = L mod N, adjacency and exact cover for ALL 64-bit N and L, run-time and CTFE bodies; N = 0 branch.'
PROPS['C10']['assumptions'] += ['slice_from_chunks: the chunk slice is a valid slice of the source (chunks * N <= source length, no wrap) - a chunk slice of zero-sized elements with chunks * N > usize::MAX cannot come from chunking and is outside the quantifier']
PROPS['C18']['mir'] = {'quick': [mrun(IFF_CTFE + CHUNKS_CTFE + ['view.as_slice.ctfe', 'view.as_mut_slice.ctfe'] + IFF[:4] + CHUNKS)]}
PROPS['C18']['technique'] = 'symbolic execution of the MIR-for-CTFE bodies (what the const evaluator interprets) + z3, same functional specification as the run-time bodies (which determines the result uniquely, hence agreement); Kani/CBMC compares real const items with run-time calls'
PROPS['C18']['bounds'] = 'M: CTFE bodies of from_slice, try_from_slice, from_mut_slice, try_from_mut_slice, as_slice, as_mut_slice, chunks_from_slice(_mut), slice_from_chunks(_mut) for ALL 64-bit N and L: every produced reference stays inside its source, no unreachable/overflow, and the same specification as the run-time body. K: const items on a small lattice.'
PROPS['C01']['mir'] = {'quick': [mrun(['view.as_slice', 'view.as_mut_slice'])]}

PROPS['C09']['mir'] = {'quick': [mrun(['remove.oob', 'swap_remove.oob'])]}
PROPS['C09']['technique'] = 'bounded model checking with Kani/CBMC against a Vec-semantics model + symbolic execution of rustc MIR with unwind edges and z3 for the out-of-bounds panic path (ALL N, idx)'
PROPS['C09']['bounds'] += ' M: remove/swap_remove with idx >= N never return and drop the receiver exactly once on the unwind edge, for ALL 64-bit N and idx.'
PROPS['C09']['outside'] = [o for o in PROPS['C09']['outside'] if 'needs unwinding' not in o]
DELEG = {'scenarios': ['delegation.eq', 'delegation.partial_cmp', 'delegation.cmp', 'delegation.hash', 'delegation.fmt'], 'nmax': 3, 'timeout': 600, 'advisory': True}
PROPS['C13']['mir'] = {'quick': [DELEG]}
PROPS['C13']['technique'] = 'bounded model checking with Kani/CBMC (symbolic pairs vs. an independent lexicographic model, recording Hasher / formatter sink) + symbolic execution of rustc MIR showing each impl is a single delegation to the uninterpreted slice method (ALL N, T, hasher/formatter states)'
PROPS['C13']['bounds'] += ' M (delegation, advisory): eq/partial_cmp/cmp/hash/fmt each return exactly the slice method applied to as_slice(self)[, as_slice(other)] and the caller\'s own state - for ALL N; if an impl stops being a plain delegation the obligation is reported as not discharged and the bounded K harnesses decide.'
PROPS['C06']['mir']['quick'].append({'scenarios': ['delegation.iter_fmt'], 'nmax': 3, 'timeout': 600, 'advisory': True})

for tier in ('quick', 'thorough'):
    PROPS['C04']['mir'][tier][0]['scenarios'] += ['clone', 'ref.map']
PROPS['C04']['functions'] += ['Clone for GenericArray (self.map(Clone::clone))', 'FunctionalSequence::map trait-default body with a & receiver']

PROPS['C14']['mir'] = {'quick': [mrun(['hex.small', 'hex.medium', 'hex.large'])]}
PROPS['C14']['technique'] = 'bounded model checking with Kani/CBMC end to end (N <= 17, symbolic bytes / precision / case) + symbolic execution of rustc MIR with z3 for the index arithmetic of all three strategies (0..=15, 16..=1024, 1025..=4200 with the chunk loop unrolled)'
PROPS['C14']['bounds'] += ' M: for every N in 0..=4200 and every precision (None or any usize): unreachable_unchecked unreachable, every unchecked index in range, the encoder\'s size precondition holds at both call sites, exactly min(precision, 2N) digits emitted and only digits the encoder produced, input bytes consumed in index order; the encoder is a stub with its contract.'
PROPS['C14']['outside'] = ['feature faster-hex on: the SIMD kernels (inline asm/intrinsics) cannot be encoded; the crate-side preconditions (which make unwrap_unchecked sound) are what M discharges', 'N > 4200 (chunk-loop unrolling bound)']
PROPS['C14']['assumptions'] += ['M stub: hex_encode / hex_encode_fallback write the digits of src into dst[..2*src.len()] provided dst.len() >= 2*src.len() (the fallback\'s behaviour is checked end to end by K for N <= 17)']

PROPS['C06']['mir']['validate'] = True
PROPS['C05']['mir']['validate'] = True

for tier in ('quick', 'thorough'):
    PROPS['C04']['mir'][tier][0]['scenarios'] += ['zip.owned_ref', 'zip.ref_owned']
PROPS['C04']['functions'] += ['GenericSequence::inverted_zip (trait default, & receiver)', 'GenericArray::inverted_zip2 (both needs_drop branches)']
PROPS['C04']['outside'] = ['Box receivers on the unwind path: their map/zip/fold go through alloc::vec::IntoIter and Vec (std code, trusted to drop its remaining elements)', 'N > 6 for the unrolled pipelines']

for tier in ('quick', 'thorough'):
    PROPS['C04']['mir'][tier][0]['scenarios'] += ['iter.fold', 'iter.rfold']
PROPS['C06']['mir']['quick'].append(mrun(['iter.fold', 'iter.rfold'], nmax=3))
PROPS['C04']['functions'] += ['GenericArrayIter::{fold,rfold}']

PROPS['C18']['mir']['quick'][0]['scenarios'] += ['const_transmute', 'const_transmute.ctfe']
PROPS['C11']['mir'] = {'quick': [mrun(['const_transmute'])]}
PROPS['C11']['technique'] = 'bounded model checking with Kani/CBMC on concrete (T,N,M) instantiations (row-major index law, address identity, write-through, drop accounting) + symbolic execution of rustc MIR for const_transmute\'s size guard (all sizes)'
PROPS['C11']['bounds'] += ' M: const_transmute (the owned flatten/unflatten) reaches the union read iff the two sizes are equal, for all sizes; otherwise panics and drops its argument once.'

IND = ['generate@ind', 'map@ind', 'zip@ind', 'clone@ind', 'ref.map@ind', 'zip.owned_ref@ind', 'zip.ref_owned@ind', 'try_from_iter@ind', 'box_generate@ind']
for tier in ('quick', 'thorough'):
    PROPS['C04']['mir'][tier].append({'scenarios': IND, 'nmax': 3, 'timeout': 1800, 'soft_inconclusive': True})
    PROPS['C07']['mir'][tier].append({'scenarios': ['try_from_iter@ind'], 'nmax': 3, 'timeout': 1800, 'soft_inconclusive': True})
    PROPS['C16']['mir'][tier].append({'scenarios': ['box_generate@ind'], 'nmax': 3, 'timeout': 1800, 'soft_inconclusive': True})
PROPS['C04']['bounds'] = ('M: the panic point is a symbolic choice over every call of caller code. (a) bounded: N <= 3 (thorough 6) with unwinding assertion; (b) ALL N < 2^63: the same pipelines (generate, owned map, zip in four forms, Clone, &-receiver map, try_from_iter, boxed generate) with the internal iteration summarised by an automatically instantiated, solver-checked loop invariant (induction over the iteration number); guards\' Drop: ALL N; needs_drop symbolic. K: N <= 4 (thorough 8).')
PROPS['C04']['assumptions'] += ['inductive scenarios: array lengths below 2^63 (iteration counter does not wrap)']
PROPS['C07']['bounds'] += ' M: try_from_iter with a panicking / lying source, N <= 3 unrolled and ALL N < 2^63 by loop-invariant induction.'

for tier in ('quick', 'thorough'):
    PROPS['C04']['mir'][tier][-1]['scenarios'] += ['fold@ind', 'iter.fold@ind', 'iter.rfold@ind']
PROPS['C06']['mir']['quick'].append({'scenarios': ['iter.fold@ind', 'iter.rfold@ind'], 'nmax': 3, 'timeout': 1800, 'soft_inconclusive': True})
PROPS['C04']['technique'] = 'symbolic execution of rustc MIR with unwind edges, drop flags and an element-ownership ledger + z3: the panic point is a symbolic choice over every call of caller code; pipelines both unrolled (N <= 3/6) and summarised by an auto-checked loop invariant (all N); Kani/CBMC for the guards\' Drop impls'

for tier in ('quick', 'thorough'):
    PROPS['C04']['mir'][tier][-1]['scenarios'] += ['iter.clone@ind']

# C17: the deserialising half also through engine M (GAVisitor::visit_seq over a SeqAccess stub with its documented contract)
PROPS['C17']['mir'] = {'quick': [mrun(['serde.visit_seq'], nmax=3), {'scenarios': ['serde.visit_seq@ind'], 'nmax': 3, 'timeout': 1800, 'soft_inconclusive': True}],
                       'thorough': [mrun(['serde.visit_seq'], nmax=6), {'scenarios': ['serde.visit_seq@ind'], 'nmax': 3, 'timeout': 1800, 'soft_inconclusive': True}]}
PROPS['C17']['technique'] = 'bounded model checking with Kani/CBMC (scripted SeqAccess, recording Serializer) + symbolic execution of rustc MIR of GAVisitor::visit_seq with z3: the source is a nondeterministic stub (any hint at every call, any element count, an error or a panic at every call); unrolled for N <= 3/6 and, with the fill loop summarised by an auto-checked loop invariant, for all N'
PROPS['C17']['bounds'] += ' M: visit_seq for N <= 3 (thorough 6) unrolled and ALL N < 2^63 by loop-invariant induction; element count any (unrolled: <= N + 2), every size_hint answer arbitrary (None or any usize, independently per call), element error or panic at every call of the source and of the error constructor.'
PROPS['C17']['assumptions'] += ['M stub: SeqAccess::size_hint returns None or any usize, except Some(0) while elements remain (the property\'s exclusion); next_element returns Ok(Some(fresh element)) while elements remain, Ok(None) after, Err or panics at any call; de::Error::invalid_length returns an opaque error or panics']
PROPS['C17']['functions'] += ['IntrusiveArrayBuilder::{new,iter_position,finish,array_assume_init,drop}']

# C08: "once per index, in index order" through engine M as well (added after the third seeded round: pointer-range loops that
# degenerate for zero-sized element types were invisible to harnesses instantiated with sized elements only)
ORDER = ['order.generate', 'order.box_generate', 'order.map', 'order.ref.map', 'order.zip', 'order.fold', 'order.clone']
PROPS['C08']['mir'] = {'quick': [mrun(ORDER, nmax=3), {'scenarios': [x + '@ind' for x in ORDER], 'nmax': 3, 'timeout': 1800, 'soft_inconclusive': True}],
                       'thorough': [mrun(ORDER, nmax=6), {'scenarios': [x + '@ind' for x in ORDER], 'nmax': 3, 'timeout': 1800, 'soft_inconclusive': True}]}
PROPS['C08']['technique'] = 'bounded model checking with Kani/CBMC (logging closures, element types of non-zero and zero size) + symbolic execution of rustc MIR with z3: the k-th call of the caller\'s function receives element/index k, its result lands in slot k, exactly N calls, no panic of the crate\'s own; element size symbolic (0 included); unrolled N <= 3/6 and all N by loop-invariant induction'
PROPS['C08']['bounds'] += ' M: generate, boxed generate, map (owned and &), zip, fold, clone: N <= 3 (thorough 6) unrolled and ALL N < 2^63 by induction; size_of::<T>() symbolic including 0 (pointers compare by address).'

# write permission of mutable views (added after the third seeded round: `as_ptr()` where `as_mut_ptr()` was meant leaves address, length and
# contents right and makes every write through the view undefined behaviour)
for pid in ('C02', 'C09', 'C10', 'C11', 'C18'):      # C18: the const evaluator rejects a write through a view derived from a shared borrow
    PROPS[pid]['mir']['quick'].append(mrun(['mutprov'], nmax=3))
    PROPS[pid]['bounds'] += ' M (mutprov): every `&mut`-to-`&mut` view function of the crate, all N: the returned pointer is derived from the argument through mutable borrows / raw pointers only (a step through a shared borrow is reported; confirmed by Miri with Tree Borrows on a driver that writes through every view).'
    PROPS[pid].setdefault('outside', [])
    PROPS[pid]['outside'] = list(PROPS[pid]['outside']) + ['aliasing-model rules beyond "no write permission through a shared borrow" (Stacked Borrows rejects the unchanged chunks_from_slice_mut; Tree Borrows accepts the unchanged crate)']

PROPS['C14']['bounds'] += ' M also: "and nothing else" - a width / fill / alignment flag adds no characters (Formatter::pad is modelled with a symbolic width).'

# the boxed collector through engine M (std's Vec / Box<[T]> by contract: capacity, published length, shrink on into_boxed_slice, drop frees)
for pid in ('C04', 'C07', 'C16'):
    for tier in ('quick', 'thorough'):
        if tier in PROPS[pid]['mir']:
            PROPS[pid]['mir'][tier].append(mrun(['try_boxed_from_iter'], nmax=3 if tier == 'quick' else 6))
            PROPS[pid]['mir'][tier].append({'scenarios': ['try_boxed_from_iter@ind'], 'nmax': 3, 'timeout': 1800, 'soft_inconclusive': True})
    PROPS[pid]['assumptions'] = list(PROPS[pid].get('assumptions', [])) + ['M stub: Vec::with_capacity / extend / len / set_len / spare_capacity_mut / into_boxed_slice and Box<[T]> into_raw / from_raw behave as documented (extend publishes the length per item; reallocation beyond the reserved capacity is reported, not modelled)']

# stated limits that the third seeded round made explicit
PROPS['C14']['outside'] = list(PROPS['C14'].get('outside', [])) + ['targets whose byte order differs from the host\'s (the checks compile and model the host target; a `to_ne_bytes` slip in the fallback encoder is invisible on little-endian)']
PROPS['C15']['outside'] = list(PROPS['C15'].get('outside', [])) + ['stack depth: building the array on the stack before boxing it (e.g. `Box::new(arr![x; n])`) is observationally equal to in-place construction in both engines']
PROPS['C19']['outside'] = list(PROPS['C19'].get('outside', [])) + ['const_default() is checked as the loop-free type-level recursion it is; an implementation with run-time loops over 1024-element blocks exceeds the unwinding bound / CBMC time limit and ends inconclusive (exit 2), neither passes nor is reported as a violation']

# C01: the chunk / unchunk views are the users of the layout guarantee (fourth-round mutants filed under C01 lived there)
PROPS['C01']['mir']['quick'].append(mrun(CHUNKS, nmax=3))
PROPS['C01']['bounds'] += ' M also: chunks_from_slice(_mut) / slice_from_chunks(_mut) for all N and L (the views that rely on size_of::<GenericArray<T, N>>() == N * size_of::<T>()).'

# eighth round: the reinterpreting conversions are users of the layout guarantee too (a "same byte extent" test instead of "same length" is
# wrong exactly for zero-sized elements): C01 also runs the length-check scenarios, all N, all L, size_of::<T>() symbolic (0 included)
PROPS['C01']['mir']['quick'].append(mrun(IFF, nmax=3))
PROPS['C01']['bounds'] += ' M also: from_slice / try_from_slice / from_mut_slice / try_from_mut_slice / TryFrom reach the reinterpreting cast iff L == N for ALL N, L and element sizes (0 included).'

# re-boxing heap sources through engine M (all N, source length and capacity symbolic)
HEAP = ['heap.try_from_vec', 'heap.try_from_boxed_slice']
for pid in ('C15', 'C16', 'C03'):
    PROPS[pid].setdefault('mir', {'quick': []})
    PROPS[pid]['mir']['quick'].append(mrun(HEAP, nmax=3))
    if 'thorough' in PROPS[pid]['mir']:
        PROPS[pid]['mir']['thorough'].append(mrun(HEAP, nmax=3))
    PROPS[pid]['bounds'] += ' M (heap.*): try_from_vec / try_from_boxed_slice for ALL N, source lengths L and capacities CAP >= L: Ok iff L == N, the same block re-boxed under the layout of N elements (a buffer with spare capacity is shrunk first; a pointer taken before the shrink is stale), a refused source dropped once and freed.'
# eighth round: provided Iterator methods the crate overrides for GenericArrayIter beyond the ones with scenarios of their own (find, position,
# try_fold, advance_by, ...): found by name in the MIR, run generically (closures / destructors may panic, then the owner drops the iterator)
for pid in ('C05', 'C06', 'C04', 'C03'):
    PROPS[pid].setdefault('mir', {'quick': []})
    for tier in ('quick', 'thorough'):
        if tier in PROPS[pid]['mir']:
            PROPS[pid]['mir'][tier].append(mrun(['iter.overrides'] + (['iter.into_iter'] if pid in ('C06', 'C03') else []), nmax=3 if tier == 'quick' else 6))
    PROPS[pid]['bounds'] += ' M (iter.overrides): every further method of the Iterator / DoubleEndedIterator / ExactSizeIterator impls of GenericArrayIter found in the MIR (overrides of provided methods), N <= 3 (thorough 6), arbitrary position, closures and destructors may panic: ownership obligations and the iterator invariant.'

for pid in ('C06', 'C03'):
    PROPS[pid]['bounds'] += ' M (iter.into_iter): for ALL 64-bit N the fresh by-value iterator reports len() == N and size_hint() == (N, Some(N)) through the crate\'s own accessors (narrowing integer casts and typenum\'s narrower constants wrap as the machine does).'

# eighth round: "the boxed constructors build arrays far larger than the thread's stack" - frames on the path of a boxed constructor
STACK = ['stack.box_generate', 'stack.try_boxed_from_iter', 'stack.box_from_iter', 'stack.box.map']
PROPS['C15']['mir']['quick'].append(mrun(STACK, nmax=3))
if 'thorough' in PROPS['C15']['mir']:
    PROPS['C15']['mir']['thorough'].append(mrun(STACK, nmax=6))
PROPS['C15']['bounds'] += ' M (stack.*): boxed generate / try_boxed_from_iter / FromIterator for Box / boxed map (N <= 3 unrolled, size_of::<T>() any 64-bit value): no function reached on a feasible path of the operation has a local, argument or return slot that contains a GenericArray by value while N * size_of::<T>() >= 256 KiB is satisfiable (the frame of a function holds all of its locals; confirmed natively by building 0.5 - 4 MiB arrays on a thread with a 256 KiB stack).'
PROPS['C15']['outside'] = [o for o in PROPS['C15']['outside'] if 'stack depth' not in o] + ['stack use of box_arr! (a macro: expanded in the caller, no MIR body in the crate) and frames of core / alloc callees (summaries); stack depth other than whole-array frames']
PROPS['C15']['technique'] = PROPS['C15'].get('technique', 'bounded model checking with Kani/CBMC') + ' + symbolic execution of rustc MIR with z3 for the re-boxing conversions (Vec / Box<[T]> by contract; all N, L, CAP) and for the stack clause (path feasibility of every frame that holds a whole array by value in the boxed constructors, size_of::<T>() symbolic)'

# fifth round: an overridden clone_from (C04); C05 also runs the fold family (an element destructor that panics inside the closure is a panic
# of caller code at that call)
for tier in ('quick', 'thorough'):
    PROPS['C04']['mir'][tier].append(mrun(['clone_from'], nmax=3 if tier == 'quick' else 6))
    if tier in PROPS['C05']['mir']:
        PROPS['C05']['mir'][tier].append(mrun(['iter.fold', 'iter.rfold', 'fold', 'map', 'zip'], nmax=3))

# sixth round: an overridden clone_from of the by-value iterator (receiver's old items released, then refilled in place)
for pid in ('C04', 'C05'):
    for tier in ('quick', 'thorough'):
        if tier in PROPS[pid]['mir']:
            PROPS[pid]['mir'][tier].append(mrun(['iter.clone_from'], nmax=3 if tier == 'quick' else 6))
PROPS['C06']['mir']['quick'].append(mrun(['iter.clone_from'], nmax=3))

# sixth round: shapes / lengths whose support by the compiler is part of the property, behind cargo features of the harness crate (a
# rejection is attributed to the property by a differential native build: the harness crate builds without the feature and not with it)
for tier in ('quick', 'thorough'):
    r = PROPS['C11']['kani'][tier][0]
    r['filters'] += ['c11::degenerate::q::'] + (['c11::degenerate::t::'] if tier == 'thorough' else [])
    r['flags'] = list(r['flags']) + ['--features', 'c11']
    r = PROPS['C19']['kani'][tier][0]
    r['filters'] += ['c19_big::']
    r['flags'] = list(r['flags']) + ['--features', 'c19']
PROPS['C19']['bounds'] += ' Const items: the constant default of 2^18-, 2^19- and 2^20-element arrays is accepted by the const evaluator and has the right ends.'
PROPS['C08']['bounds'] += ' K also: a 136-byte element type (above a cache line / any small-array threshold even for N = 1) through generate, boxed generate, Default, default_boxed, map (same layout), &-map, zip, fold, clone.'
PROPS['C13']['bounds'] += ' K also: the sequence of element comparisons (eq / partial_cmp / cmp calls on logging elements) made by ==, !=, partial_cmp, cmp, <, >= equals the one the slice comparison makes (short-circuit included).'
PROPS['C07']['bounds'] += ' The pull limit (N + 1 calls of next, none after None) is checked inside the scripted source, so it also covers the forms that end in a panic (from_iter / collect, stack and boxed).'

# sixth round: the crate's own map / fold bodies for a boxed receiver, if it has any (the trait defaults go through alloc::vec::IntoIter)
for pid in ('C04', 'C16'):
    for tier in ('quick', 'thorough'):
        if tier in PROPS[pid]['mir']:
            PROPS[pid]['mir'][tier].append(mrun(['box.map', 'box.fold'], nmax=3 if tier == 'quick' else 6))

# by-value conversions of C02 (native arrays, tuples) with drop-tracked elements: "keeps every element at its position" includes not
# destroying it on the way (a guard whose position is never advanced drops what was just moved into the tuple)
PROPS['C02']['kani']['quick'][0]['filters'] += ['c03::q::seq::nat']
PROPS['C02']['kani']['thorough'][0]['filters'] += ['c03::q::seq::nat', 'c03::t::seq::nat']
PROPS['C02']['outside'] = [o for o in PROPS['C02']['outside'] if 'drop-tracked' not in o]

# C01: const_transmute's size check "backs every by-value reinterpretation" (anchor of C01), and the ConstDefault read-back for long arrays
PROPS['C01']['mir']['quick'].append(mrun(['const_transmute'], nmax=3))
for tier in ('quick', 'thorough'):
    r = PROPS['C01']['kani'][tier][0]
    r['filters'] += ['c19_big::']
    r['flags'] = list(r['flags']) + ['--features', 'c19']
PROPS['C01']['bounds'] += ' M also: const_transmute reaches its union read iff the two sizes are equal (all sizes). Const items: 2^18..2^20-element constant defaults read back through the slice view.'
# C14: the chunked strategy beyond the quick bound
PROPS['C14']['mir']['thorough'] = [mrun(['hex.small', 'hex.medium', 'hex.large', 'hex.xlarge'], timeout=3000)]
PROPS['C14']['bounds'] += ' Thorough: N up to 8300 (eight full chunks and a partial one).'

# zero-sized elements with a destructor through the sequence operations (C09) and the regrouping operations (C11)
for pid in ('C09', 'C11'):
    PROPS[pid]['kani']['quick'][0]['filters'] += ['c03::q::seq::zst']
    PROPS[pid]['kani']['thorough'][0]['filters'] += ['c03::q::seq::zst', 'c03::t::seq::zst']

# C03: the panic-free path of the functional operations through engine M as well (ownership of every operand, needs_drop of either element
# type symbolic and independent: a shortcut keyed on the wrong type's needs_drop is a double drop without any panic)
PROPS['C03']['mir']['quick'].append(mrun(['map', 'zip', 'fold', 'generate', 'zip.owned_ref', 'zip.ref_owned', 'clone'], nmax=3))
PROPS['C03']['bounds'] += ' M: generate / map / zip (owned, owned x &, & x owned) / fold / clone with N <= 3 and needs_drop of each element type symbolic.'

# C05: an element destructor that panics inside an explicit clean-up of the collectors (seventh round: builder.clear() before `return Err`)
PROPS['C05']['mir']['quick'].append(mrun(['try_from_iter', 'try_boxed_from_iter'], nmax=3))

PROPS['C04']['outside'] = ['Box receivers on the unwind path when they use the trait-default map / zip / fold bodies: these go through alloc::vec::IntoIter and Vec (std code, trusted to drop its remaining elements); an own body of the crate for the boxed receiver IS executed (scenarios box.map / box.fold)', 'N > 6 for the unrolled pipelines']
PROPS['C04']['functions'] += ['Clone::clone_from overrides (GenericArray, GenericArrayIter) if present', 'FunctionalSequence::{map,fold} for Box<GenericArray> if the crate has own bodies', 'Drop glue of every struct defined in the crate (own Drop impl, then fields)']
PROPS['C16']['functions'] += ['FunctionalSequence::{map,fold} for Box<GenericArray> if the crate has own bodies (M)']
